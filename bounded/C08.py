"""C08 bounded stand-in: runtime contracts on the real local tensor quadrature grids of sparseSpACE.Grid
(setCurrentArea / levelToNumPoints / get_points_and_weights / integrate) over a bounded universe.

Oracle (independent of the library): closed-form integrals of monomials over boxes, the box volume, own
enumeration of which tensor points lie on the global boundary.
"""
import itertools
import math

import numpy as np

from bounded.api import quiet

TOL = 1e-10          # relative tolerance of every exactness / weight-sum comparison (scale: integral of |monomial|)
EPS_IN = 1e-12       # containment slack, relative to the edge length of the box

DOMAINS = [([0.0, 0.0, 0.0], [1.0, 1.0, 1.0]),
           ([-1.0, -1.0, -1.0], [3.0, 3.0, 3.0]),
           ([-2.5, 0.25, 2.0], [-0.5, 1.0, 2.75])]

# family -> (constructor parameters p, boundary flags in the universe, hierarchical?)
FAMILIES = [
    ("trapezoidal", None, (True, False)),
    ("simpson", None, (True, False)),
    ("clenshaw_curtis", None, (True, False)),
    ("leja", None, (True, False)),
    ("gauss_legendre", None, (None,)),
    ("lagrange", 1, (True, False)), ("lagrange", 2, (True, False)), ("lagrange", 3, (True, False)), ("lagrange", 4, (True, False)),
    ("bspline", 1, (True, False)), ("bspline", 3, (True, False)),
]
HIERARCHICAL = ("lagrange", "bspline")

BOUND = ("families Trapezoidal, Simpson, ClenshawCurtis, Leja (boundary on and off), GaussLegendre (no flag), Lagrange p in 1..4 and "
         "BSpline p in {1,3} (boundary on: all clauses; boundary off: only B.total/B.count/B.inside on a few d=1 boxes, every such call "
         "raises on the unchanged tree); d in {1,2,3}; 3 domains [a,b] (unit, [-1,3]^d, anisotropic negative/non-unit); levels 0..4 per "
         "dimension (d=1: all [quick, Leja: each (interval, level) on one of the domains]; d=2: all 25 level vectors in quick with rotating boxes, x all boxes in thorough; d=3: levels<=2 "
         "(hierarchical) or <=3, seeded sample); sub-boxes = per dimension one interval of the dyadic family "
         "[a+i*L/2^j, a+(i+1)*L/2^j], j<=2 (7 intervals: whole, halves, quarters; touching both / one / no end of [a,b]; touching ends "
         "are exactly a or b); plus, trapezoidal boundary off only, the variant whose end is one ulp below b (count clause only). "
         "Weight-sum and exactness are demanded for 'complete' cases: boundary on, or the box touches the global boundary in no dimension. "
         "Monomials: every axis monomial x_i^k, k<=deg_i, the corner prod x_i^deg_i and 8 fixed mixed ones; deg per dimension with n "
         "announced points (boundary on) and level l: trapezoidal 1, Simpson 3 (1 if n=2), ClenshawCurtis/Leja n-1, GaussLegendre 2n-1, "
         "BSpline min(p,n-1), Lagrange min(p,l+1) (= min(p,n-1) except p=4,l=2, see notes). History (round 2), every complete case: the grid is asked twice; the "
         "Function cache is compared with own evaluation after integrate; the same Function object is integrated by a nodal grid first and by "
         "point-wise evaluating grids (hierarchical family under test / LagrangeGrid p=1 / TrapezoidalGrid(integrator='old')) afterwards")
BOUND += "; fault / magnitude additions: boundary flags switched through set_boundaries with python bools or numpy bool arrays (alternating by case)"
RULE = BOUND + ("; one case = (family, p, boundary, a, b, start, end, levelvec); non-trivial = the grid has at least one point; "
                "tolerance: |result-exact| <= 1e-10 * prod_i int_box |x_i|^k_i dx_i")
BUDGET = {"quick": 60.0, "thorough": 800.0}

CLAUSES = {
    "B.total": "construction, setCurrentArea, levelToNumPoints, get_points_and_weights and integrate return normally on every (family, flag, box inside [a,b], level vector) of the universe",
    "B.count": "prod(levelToNumPoints(levelvec)) == number of points returned == number of weights returned == get_num_points(); per dimension len(coordinates) == len(1-D weights) == announced",
    "B.inside": "every returned point lies inside [start,end] (slack 1e-12 of the edge length)",
    "B.weights.sum": "complete cases, nodal families: sum of the tensor weights == volume of the box (rel 1e-10)",
    "B.exact.weights": "complete cases, nodal families: sum_i w_i m(x_i) == closed-form integral of m over the box for every monomial m up to the nominal degree (rel 1e-10), points and weights taken from get_points_and_weights",
    "B.exact.integrate": "complete cases, all families: grid.integrate(m, levelvec, start, end) == closed-form integral for the same monomials (for the hierarchical families this includes the constant, i.e. integrate(1) == volume)",
    "B.history.idempotent": "the same grid asked twice (second setCurrentArea + get_points_and_weights, second integrate with the same Function) gives the same points, weights and integral; the points/weights handed out before are unchanged by the later integrate calls",
    "B.history.function_cache": "after grid.integrate(f, ...) every value stored in the cache of the Function object (f.f_dict) still equals f.eval at that point (own evaluation of the monomials)",
    "B.history.shared_function": "exactness does not depend on what the Function object was used for before: the SAME Function object is integrated first by a nodal grid (the family under test, or a TrapezoidalGrid for the hierarchical families) and then, on the same box and level vector, by point-wise evaluating grids (the hierarchical family under test; LagrangeGrid p=1 and TrapezoidalGrid(integrator='old') after a nodal family): the second result equals the closed form for all monomials up to the second grid's nominal degree",
    "B.trap.boundary_off": "trapezoidal, boundary off: per dimension the coordinates/weights equal those of the boundary-on grid with exactly the entries at x==a (if start==a) and x==b (if end==b) removed; the tensor points/weights equal the boundary-on ones with exactly the points having a coordinate on the global boundary removed",
}

SITE_SET = "sparseSpACE.Grid:Grid.setCurrentArea"
SITE_N = {"trapezoidal": "sparseSpACE.Grid:TrapezoidalGrid1D.level_to_num_points_1d",
          "simpson": "sparseSpACE.Grid:SimpsonGrid1D.get_1D_level_weights",
          "clenshaw_curtis": "sparseSpACE.Grid:ClenshawCurtisGrid1D.level_to_num_points_1d",
          "leja": "sparseSpACE.Grid:LejaGrid1D.get_1d_points_and_weights",
          "gauss_legendre": "sparseSpACE.Grid:GaussLegendreGrid1D.get_1d_points_and_weights",
          "lagrange": "sparseSpACE.Grid:LagrangeGrid1D.compute_1D_quad_weights",
          "bspline": "sparseSpACE.Grid:BSplineGrid1D.compute_1D_quad_weights"}
SITE_W = {"trapezoidal": "sparseSpACE.Grid:TrapezoidalGrid1D.get_1d_weight",
          "simpson": "sparseSpACE.Grid:SimpsonGrid1D.get_1D_level_weights",
          "clenshaw_curtis": "sparseSpACE.Grid:ClenshawCurtisGrid1D.get_1d_weight",
          "leja": "sparseSpACE.Grid:LejaGrid1D.compute_1D_quad_weights",
          "gauss_legendre": "sparseSpACE.Grid:GaussLegendreGrid1D.get_1d_points_and_weights",
          "lagrange": "sparseSpACE.Grid:LagrangeGrid1D.compute_1D_quad_weights",
          "bspline": "sparseSpACE.Grid:BSplineGrid1D.compute_1D_quad_weights"}
SITE_INT = {True: "sparseSpACE.Integrator:IntegratorHierarchicalBasisFunctions.__call__",
            False: "sparseSpACE.Integrator:IntegratorArbitraryGridScalarProduct.__call__"}


# ------------------------------------------------------------------------------------------- universe helpers
INTERVALS = [(0, 0), (1, 0), (1, 1), (2, 0), (2, 1), (2, 2), (2, 3)]      # (j, i): [a+i*L/2^j, a+(i+1)*L/2^j]


def interval(a, b, j, i):
    """End points of the dyadic interval; ends touching the global boundary are exactly a / b."""
    L = b - a
    s = a if i == 0 else a + i * L / 2 ** j
    e = b if i == 2 ** j - 1 else a + (i + 1) * L / 2 ** j
    return s, e


def make_grid(family, p, boundary, a, b):
    from sparseSpACE import Grid as G
    if family == "trapezoidal":
        return G.TrapezoidalGrid(a, b, boundary=boundary)
    if family == "simpson":
        return G.SimpsonGrid(a, b, boundary=boundary)
    if family == "clenshaw_curtis":
        return G.ClenshawCurtisGrid(a, b, boundary=boundary)
    if family == "leja":
        return G.LejaGrid(a, b, boundary=boundary)
    if family == "gauss_legendre":
        return G.GaussLegendreGrid(a, b)
    if family == "lagrange":
        return G.LagrangeGrid(a, b, boundary=boundary, p=p)
    if family == "bspline":
        return G.BSplineGrid(a, b, boundary=boundary, p=p)
    raise ValueError(family)


def n_full(family, l):
    """points per dimension of the complete rule (own formula, from the property statement / family definition)"""
    if family == "leja":
        return 2 if l == 0 else 2 * (l + 1) - 1
    return 2 ** l + 1


def nominal_degree(family, p, l):
    n = n_full(family, l)
    if family == "trapezoidal":
        return 1
    if family == "simpson":
        return 3 if n >= 3 else 1
    if family in ("clenshaw_curtis", "leja"):
        return n - 1
    if family == "gauss_legendre":
        return 2 * n - 1
    if family == "bspline":
        return min(p, n - 1)
    if family == "lagrange":
        return min(p, l + 1)
    raise ValueError(family)


def monomials(degs):
    d = len(degs)
    exps = []
    for i in range(d):
        for k in range(degs[i] + 1):
            e = [0] * d
            e[i] = k
            if tuple(e) not in exps:
                exps.append(tuple(e))
    if d > 1:
        for t in range(8):
            e = tuple((t * (i + 2) + i + 1) % (degs[i] + 1) for i in range(d))
            if e not in exps:
                exps.append(e)
        if tuple(degs) not in exps:
            exps.append(tuple(degs))
    return exps


def mono_integral(k, s, e):
    return (e ** (k + 1) - s ** (k + 1)) / (k + 1)


def mono_abs_integral(k, s, e):
    """int_s^e |x|^k dx"""
    if s >= 0 or e <= 0:
        return abs(mono_integral(k, s, e))
    return (abs(s) ** (k + 1) + abs(e) ** (k + 1)) / (k + 1)


def exact_and_scale(exps, start, end):
    ex = np.array([np.prod([mono_integral(k, s, e) for k, s, e in zip(kk, start, end)]) for kk in exps])
    sc = np.array([np.prod([mono_abs_integral(k, s, e) for k, s, e in zip(kk, start, end)]) for kk in exps])
    return ex, sc


def make_function(exps):
    from sparseSpACE.Function import Function
    E = np.array(exps, dtype=int)

    class Monomials(Function):
        def output_length(self):
            return len(E)

        def eval(self, coordinates):
            c = np.asarray(coordinates, dtype=float)
            return np.prod(c[None, :] ** E, axis=1)

        def eval_vectorized(self, coordinates):
            c = np.asarray(coordinates, dtype=float)
            return np.prod(c[:, None, :] ** E[None, :, :], axis=2)
    return Monomials()


# ------------------------------------------------------------------------------------------- one case
def run_case(ctx, case):
    family, p, boundary = case["family"], case["p"], case["boundary"]
    a, b, start, end, levelvec = case["a"], case["b"], case["start"], case["end"], case["levelvec"]
    d = len(a)
    hier = family in HIERARCHICAL
    bnd_eff = False if boundary is None else boundary
    if boundary is False:
        tag = family + "-bndoff"          # one class per family: these are the configurations with known defects
    else:
        tag = family + ("-p%d" % p if p else "")
    variant = case.get("variant", "dyadic")
    touch_lo = [start[i] == a[i] for i in range(d)]
    touch_hi = [end[i] == b[i] for i in range(d)]
    touching = any(touch_lo) or any(touch_hi)
    complete = (boundary is None) or boundary or not touching
    if variant == "end-ulp":
        complete = False

    state = {}
    with ctx.guard("B.total", SITE_N[family], tag + "-raises"):
        with quiet():
            grid = make_grid(family, p, boundary, list(a), list(b))
            grid.setCurrentArea(list(start), list(end), list(levelvec))
            ann = [int(x) for x in grid.levelToNumPoints(list(levelvec))]
            pts, w = grid.get_points_and_weights()
            state["ok"] = True
    if not state.get("ok"):
        return False
    pts = [tuple(float(x) for x in q) for q in pts]
    w = np.asarray(w, dtype=float).ravel()
    npts = int(np.prod(ann))

    # ---- count
    per_dim = all(len(grid.coordinate_array[i]) == ann[i] == len(grid.weights[i]) for i in range(d))
    ok_count = (len(pts) == npts == len(w) == int(grid.get_num_points())) and per_dim
    if variant == "end-ulp":
        wc = tag + "-end-isclose-not-equal"
    elif family == "simpson" and not bnd_eff:
        wc = tag + "-subbox-weights-len"
    else:
        wc = tag + "-count"
    ctx.check("B.count", ok_count, SITE_N[family], wc,
              "announced %s (prod %d), points %d, weights %d, per-dim coords %s, per-dim weights %s" %
              (ann, npts, len(pts), len(w), [len(c) for c in grid.coordinate_array], [len(x) for x in grid.weights]))
    if variant == "end-ulp":
        return len(pts) > 0

    # ---- containment
    if pts:
        P = np.array(pts).reshape(len(pts), d)
        slack = EPS_IN * (np.array(end) - np.array(start))
        inside = np.all(P >= np.array(start) - slack) and np.all(P <= np.array(end) + slack)
        ctx.check("B.inside", inside, SITE_SET, tag + "-outside", "a point lies outside [%s,%s]" % (start, end))

    # ---- trapezoidal boundary off == boundary on minus global-boundary points
    if family == "trapezoidal" and boundary is False:
        check_trap_boundary_off(ctx, case, grid, pts, w, touch_lo, touch_hi)

    if not complete or not ok_count:
        return len(pts) > 0

    # ---- weight sum / exactness
    degs = [nominal_degree(family, p, l) for l in levelvec]
    exps = monomials(degs)
    exact, scale = exact_and_scale(exps, start, end)
    vol = float(np.prod(np.array(end) - np.array(start)))
    if not hier:
        ctx.check("B.weights.sum", abs(float(np.sum(w)) - vol) <= TOL * vol, SITE_W[family],
                  tag + ("-weightsum" if bnd_eff or boundary is None else "-interior-weightsum"),
                  "sum of weights %r, volume %r" % (float(np.sum(w)), vol))
        P = np.array(pts).reshape(len(pts), d)
        vals = np.prod(P[:, None, :] ** np.array(exps)[None, :, :], axis=2)          # own evaluation of the monomials
        q = vals.T @ w
        bad = [(exps[i], float(q[i]), float(exact[i])) for i in range(len(exps)) if not abs(q[i] - exact[i]) <= TOL * scale[i]]
        ctx.check("B.exact.weights", not bad, SITE_W[family], tag + ("-exactness" if bnd_eff or boundary is None else "-interior-exactness"),
                  "monomial exponents, quadrature, exact: %s (degrees %s)" % (bad[:3], degs))
    res = {}
    pts_copy, w_copy = list(pts), np.array(w)
    with ctx.guard("B.total", SITE_N[family] if boundary is False else SITE_INT[hier], tag + ("-raises" if boundary is False else "-integrate-raises")):
        with quiet():
            F = make_function(exps)
            grid2 = make_grid(family, p, boundary, list(a), list(b))
            if hier:
                # history: the same Function object was integrated by a nodal grid on the same box before
                from sparseSpACE import Grid as G
                G.TrapezoidalGrid(list(a), list(b), boundary=True).integrate(F, list(levelvec), list(start), list(end))
            res["I"] = np.asarray(grid2.integrate(F, list(levelvec), list(start), list(end)), dtype=float).ravel()
    history_checks(ctx, case, res, F if "I" in res else None, grid, grid2 if "I" in res else None, pts_copy, w_copy, exps, exact, scale, tag, hier)
    if hier and "I" in res:
        I = res["I"]
        bad = [] if I.shape != exact.shape else [(exps[i], float(I[i]), float(exact[i])) for i in range(len(exps)) if not abs(I[i] - exact[i]) <= TOL * scale[i]]
        ctx.check("B.history.shared_function", I.shape == exact.shape and not bad, SITE_INT[True], tag + "-after-nodal-same-function",
                  "integrate() with a Function object used by a TrapezoidalGrid before: %s" % bad[:3])
        with ctx.guard("B.total", SITE_INT[hier], tag + "-integrate-raises"):
            with quiet():
                res["I"] = np.asarray(make_grid(family, p, boundary, list(a), list(b)).integrate(
                    make_function(exps), list(levelvec), list(start), list(end)), dtype=float).ravel()       # fresh Function for B.exact.integrate
    if "I" in res:
        I = res["I"]
        ok_shape = I.shape == exact.shape
        bad = [] if not ok_shape else [(exps[i], float(I[i]), float(exact[i])) for i in range(len(exps)) if not abs(I[i] - exact[i]) <= TOL * scale[i]]
        ctx.check("B.exact.integrate", ok_shape and not bad, SITE_INT[hier] if not hier else SITE_W[family],
                  tag + ("-integrate" if bnd_eff or boundary is None else "-interior-integrate"),
                  "shape %s vs %s; monomial exponents, integrate(), exact: %s (degrees %s)" % (I.shape, exact.shape, bad[:3], degs))
    return len(pts) > 0


def history_checks(ctx, case, res, F, grid, grid2, pts_copy, w_copy, exps, exact, scale, tag, hier):
    """generic history clauses of a complete case (F was integrated by grid2; grid handed out pts_copy / w_copy before)"""
    from sparseSpACE import Grid as G
    family, p, boundary = case["family"], case["p"], case["boundary"]
    a, b, start, end, levelvec = case["a"], case["b"], case["start"], case["end"], case["levelvec"]
    d = len(a)
    if F is None:
        return
    E = np.array(exps, dtype=int)
    # ---- function cache == function
    keys = list(F.f_dict.keys())
    if keys:
        K = np.array(keys, dtype=float).reshape(len(keys), d)
        cached = np.array([np.asarray(F.f_dict[k], dtype=float).ravel() for k in keys])
        own = np.prod(K[:, None, :] ** E[None, :, :], axis=2)
        okc = cached.shape == own.shape and bool(np.all(np.abs(cached - own) <= 1e-12 * np.maximum(1.0, np.abs(own))))
        worst = None if cached.shape != own.shape else keys[int(np.argmax(np.max(np.abs(cached - own), axis=1)))]
        ctx.check("B.history.function_cache", okc, SITE_INT[hier], tag + "-cache-differs-from-eval",
                  "%d cached points; e.g. point %s" % (len(keys), worst))
    # ---- same grid asked twice; earlier hand-outs unchanged
    st = {}
    if family == "leja" and sum(levelvec) > 3:
        st["skip"] = True                        # Leja points are recomputed by a numerical optimisation at every setCurrentArea (70 ms each)
    with ctx.guard("B.total", SITE_INT[hier], tag + "-second-query-raises"):
        with quiet():
            if not st.get("skip"):
                grid.setCurrentArea(list(start), list(end), list(levelvec))
                pts_b, w_b = grid.get_points_and_weights()
                st["I2"] = np.asarray(grid2.integrate(F, list(levelvec), list(start), list(end)), dtype=float).ravel()
                st["pts"], st["w"] = [tuple(float(x) for x in q) for q in pts_b], np.asarray(w_b, dtype=float).ravel()
    if "I2" in st:
        problems = []
        if st["pts"] != pts_copy or not np.array_equal(st["w"], w_copy):
            problems.append("second get_points_and_weights differs")
        if st["I2"].shape != res["I"].shape or np.any(np.abs(st["I2"] - res["I"]) > 1e-13 * np.maximum(scale, np.abs(res["I"]))):
            problems.append("second integrate with the same Function differs: %s vs %s" % (st["I2"][:3], res["I"][:3]))
        ctx.check("B.history.idempotent", not problems, SITE_INT[hier], tag + "-same-grid-twice", "; ".join(problems))
    # ---- the same Function object handed to point-wise evaluating grids afterwards (nodal families)
    if not hier:
        low = [i for i, e in enumerate(exps) if max(e) <= 1]
        consumers = (("lagrange-p1", lambda: G.LagrangeGrid(list(a), list(b), boundary=True, p=1)),
                     ("trapezoidal-old-integrator", lambda: G.TrapezoidalGrid(list(a), list(b), boundary=True, integrator='old')))
        n_equi = int(np.prod([2 ** int(l) + 1 for l in levelvec]))
        if n_equi > 289:
            consumers = ()                       # python loops per point: only small and medium grids
        elif n_equi > 45:
            consumers = consumers[1:] if sum(levelvec) % 2 else consumers[:1]
        for name, mk in consumers:
            out = {}
            with ctx.guard("B.total", SITE_INT[name == "lagrange-p1"], tag + "-then-" + name + "-raises"):
                with quiet():
                    out["I"] = np.asarray(mk().integrate(F, list(levelvec), list(start), list(end)), dtype=float).ravel()
            if "I" in out:
                J = out["I"]
                bad = [] if J.shape != exact.shape else [(exps[i], float(J[i]), float(exact[i])) for i in low if not abs(J[i] - exact[i]) <= TOL * scale[i]]
                ctx.check("B.history.shared_function", J.shape == exact.shape and not bad, SITE_INT[name == "lagrange-p1"],
                          tag + "-then-" + name + "-same-function", "monomials of degree <= 1 per dimension after the Function was used by %s: %s" % (family, bad[:3]))


def check_trap_boundary_off(ctx, case, grid_off, pts_off, w_off, touch_lo, touch_hi):
    a, b, start, end, levelvec = case["a"], case["b"], case["start"], case["end"], case["levelvec"]
    d = len(a)
    site = "sparseSpACE.Grid:Grid1d.set_current_area"
    st = {}
    with ctx.guard("B.total", site, "trapezoidal-raises"):
        with quiet():
            gon = make_grid("trapezoidal", None, True, list(a), list(b))
            gon.setCurrentArea(list(start), list(end), list(levelvec))
            st["pts"], st["w"] = gon.get_points_and_weights()
    if "pts" not in st:
        return
    ok1 = True
    msg = ""
    one_sided0 = False
    for i in range(d):
        c_on = np.asarray(gon.coordinate_array[i], dtype=float)
        w_on = np.asarray(gon.weights[i], dtype=float)
        keep = np.ones(len(c_on), dtype=bool)
        if touch_lo[i]:
            keep &= c_on != a[i]
        if touch_hi[i]:
            keep &= c_on != b[i]
        # own statement of "on the global boundary": coordinate equal to a or b (touching ends are exactly a / b)
        exp_c, exp_w = c_on[keep], w_on[keep]
        c_off = np.asarray(grid_off.coordinate_array[i], dtype=float)
        wt_off = np.asarray(grid_off.weights[i], dtype=float)
        if not (len(c_off) == len(exp_c) and np.array_equal(c_off, exp_c) and len(wt_off) == len(exp_w)
                and np.allclose(wt_off, exp_w, rtol=1e-14, atol=0)):
            ok1 = False
            msg += "dim %d: expected coords %s weights %s, got coords %s weights %s; " % (i, exp_c, exp_w, c_off, wt_off)
            if levelvec[i] == 0 and (touch_lo[i] != touch_hi[i]):
                one_sided0 = True
    exp = [(tuple(float(x) for x in q), float(ww)) for q, ww in zip(st["pts"], np.asarray(st["w"], dtype=float).ravel())
           if not any((touch_lo[i] and q[i] == a[i]) or (touch_hi[i] and q[i] == b[i]) for i in range(d))]
    ok2 = len(exp) == len(pts_off) == len(w_off) and all(
        e[0] == q and abs(e[1] - ww) <= 1e-14 * abs(e[1]) for e, q, ww in zip(exp, pts_off, w_off))
    wc = "trapezoidal-bndoff-level0-one-sided-midpoint" if one_sided0 else "trapezoidal-bndoff-drop"
    ctx.check("B.trap.boundary_off", ok1 and ok2, site, wc, msg or "tensor points/weights differ from boundary-on minus boundary points")
    # history: the boundary flags of ONE grid object are switched (Grid.set_boundaries, as the error estimation of the extend-split strategy does) between
    # two set-ups of the same sub-box and level vector: the second set-up must be that of a fresh grid with the new flags, and switching back restores the first
    if not one_sided0:
        hist = {}
        with ctx.guard("B.history.idempotent", site, "trapezoidal-flag-switch-raises"):
            with quiet():
                first = [(np.array(gon.coordinate_array[i], dtype=float), np.array(gon.weights[i], dtype=float), int(gon.numPoints[i])) for i in range(d)]
                # the flags as python bools or -- what Grid.get_boundaries() returns and the library's own save / restore idiom passes back -- as a numpy bool array
                np_flags = (sum(int(l) for l in levelvec) + d) % 2 == 0
                gon.set_boundaries(np.zeros(d, dtype=bool) if np_flags else [False] * d)
                gon.setCurrentArea(list(start), list(end), list(levelvec))
                off = [(np.array(gon.coordinate_array[i], dtype=float), np.array(gon.weights[i], dtype=float), int(gon.numPoints[i])) for i in range(d)]
                gon.set_boundaries(np.ones(d, dtype=bool) if np_flags else [True] * d)
                gon.setCurrentArea(list(start), list(end), list(levelvec))
                back = [(np.array(gon.coordinate_array[i], dtype=float), np.array(gon.weights[i], dtype=float), int(gon.numPoints[i])) for i in range(d)]
                hist["ok"] = True
        if hist.get("ok"):
            problems = []
            for i in range(d):
                c_ref, w_ref = np.asarray(grid_off.coordinate_array[i], dtype=float), np.asarray(grid_off.weights[i], dtype=float)
                if not (len(off[i][0]) == len(c_ref) == off[i][2] and np.array_equal(off[i][0], c_ref) and len(off[i][1]) == len(w_ref) and np.allclose(off[i][1], w_ref, rtol=1e-14, atol=0)):
                    problems.append("dim %d after switching the boundary points off: %d points announced, coords %s weights %s; a fresh grid gives coords %s weights %s" % (i, off[i][2], off[i][0], off[i][1], c_ref, w_ref))
                if not (np.array_equal(back[i][0], first[i][0]) and np.array_equal(back[i][1], first[i][1]) and back[i][2] == first[i][2]):
                    problems.append("dim %d after switching them on again: coords %s weights %s, at first %s %s" % (i, back[i][0], back[i][1], first[i][0], first[i][1]))
            ctx.check("B.history.idempotent", not problems, site, "trapezoidal-flag-switch-same-box", "; ".join(problems)[:900])


# ------------------------------------------------------------------------------------------- enumeration
def build_case(family, p, boundary, dom, d, levelvec, ivs, variant="dyadic"):
    a = DOMAINS[dom][0][:d]
    b = DOMAINS[dom][1][:d]
    se = [interval(a[i], b[i], ivs[i][0], ivs[i][1]) for i in range(d)]
    start = [x[0] for x in se]
    end = [x[1] for x in se]
    case = {"family": family, "p": p, "boundary": boundary, "a": a, "b": b, "start": start, "end": end,
            "levelvec": list(levelvec), "variant": variant}
    if variant == "end-ulp":
        # the last dimension ends one ulp below b (still inside [a,b], still isclose to b)
        case["end"][-1] = float(np.nextafter(b[-1], a[-1]))
    return case


def run_modified_trapezoidal(ctx, case):
    """TrapezoidalGrid(boundary=False, modified_basis=True): the boundary points are dropped and the end weights extrapolate, so on EVERY sub-box (levels >= 1)
    the weights still sum to the box volume and integrate the coordinate functions exactly (nominal degree 1)."""
    from sparseSpACE import Grid as G
    a, b, s, e, lv = case["a"], case["b"], case["start"], case["end"], case["levelvec"]
    d = len(lv)
    site = SITE_W["trapezoidal"]
    st = {}
    with ctx.guard("B.total", SITE_SET, "trapezoidal-modified-raises"):
        with quiet():
            g = G.TrapezoidalGrid(np.array(a[:d]), np.array(b[:d]), boundary=False, modified_basis=True)
            g.setCurrentArea(np.array(s), np.array(e), list(lv))
            pts, w = g.get_points_and_weights()
            st["pw"] = (np.array(pts, dtype=float).reshape(-1, d), np.array(w, dtype=float).ravel())
    if "pw" not in st:
        return
    pts, w = st["pw"]
    vol = float(np.prod([ee - ss for ss, ee in zip(s, e)]))
    ctx.check("B.weights.sum", abs(w.sum() - vol) <= 1e-10 * vol, site, "trapezoidal-modified-weightsum", "sum %r, volume %r, box %s..%s levels %s" % (float(w.sum()), vol, s, e, lv))
    for k in range(d):
        exact = vol * (s[k] + e[k]) / 2.0
        scale = vol * max(abs(s[k]), abs(e[k]), 1e-300)
        ctx.check("B.exact.weights", abs(float((w * pts[:, k]).sum()) - exact) <= 1e-10 * scale, site, "trapezoidal-modified-linear",
                  "sum w*x_%d = %r, exact %r, box %s..%s levels %s" % (k, float((w * pts[:, k]).sum()), exact, s, e, lv))


def do_case(ctx, case):
    if case.get("variant") == "modified-basis":
        ctx.case(case, nontrivial=True)
        return run_modified_trapezoidal(ctx, case)
    # trivial = the grid is empty by construction (boundary off, level 0, box spans the whole domain in some dimension)
    empty = case["boundary"] is False and any(l == 0 and s == a and e == b for l, s, e, a, b in
                                              zip(case["levelvec"], case["start"], case["end"], case["a"], case["b"]))
    ctx.case(case, nontrivial=not empty)
    return run_case(ctx, case)


def run(ctx):
    quick = ctx.quick()
    ctx.exhaustive = True
    main = [(f, p, bn) for f, p, flags in FAMILIES for bn in flags if not (f in HIERARCHICAL and bn is False)]
    probe = [(f, p, False) for f, p, flags in FAMILIES if f in HIERARCHICAL]

    # ---- d = 1: exhaustive over domains x intervals x levels
    for (f, p, bn) in main:
        for dom in range(len(DOMAINS)):
            for ni, iv in enumerate(INTERVALS):
                for l in range(5):
                    if quick and f == "leja" and (ni + l) % len(DOMAINS) != dom:
                        continue        # Leja points come from a numerical optimisation at every setCurrentArea: quick visits each (interval, level) on one domain
                    do_case(ctx, build_case(f, p, bn, dom, 1, [l], [iv]))
    # hierarchical families with boundary off: a few boxes only (B.total / B.count / B.inside)
    for (f, p, bn) in probe:
        for iv in [(0, 0), (1, 0), (2, 1)]:
            for l in (1, 3):
                do_case(ctx, build_case(f, p, bn, 1, 1, [l], [iv]))
    # one-ulp-short variant (trapezoidal, boundary off)
    for dom in range(len(DOMAINS)):
        for iv in [(0, 0), (1, 1), (2, 3)]:
            for l in range(5):
                do_case(ctx, build_case("trapezoidal", None, False, dom, 1, [l], [iv], variant="end-ulp"))
    do_case(ctx, build_case("trapezoidal", None, False, 1, 2, [2, 1], [(1, 0), (1, 1)], variant="end-ulp"))
    # local trapezoidal grid with the modified (extrapolating) basis, boundary off: levels >= 1, every interval of the dyadic family, d = 1 and 2
    for dom in range(len(DOMAINS)):
        for iv in INTERVALS:
            for l in range(1, 5):
                do_case(ctx, build_case("trapezoidal", None, False, dom, 1, [l], [iv], variant="modified-basis"))
    for n, lv in enumerate(itertools.product(range(1, 4), repeat=2)):
        ivs = (INTERVALS[(3 * n) % len(INTERVALS)], INTERVALS[(5 * n + 2) % len(INTERVALS)])
        do_case(ctx, build_case("trapezoidal", None, False, n % len(DOMAINS), 2, list(lv), list(ivs), variant="modified-basis"))

    # ---- d = 2: every level vector; boxes rotate (quick) / all boxes on one domain + rotation on the others (thorough)
    lv2 = list(itertools.product(range(5), repeat=2))
    iv2 = list(itertools.product(INTERVALS, repeat=2))
    k = 0
    for (f, p, bn) in main:
        for n, lv in enumerate(lv2):
            if ctx.out_of_time(0.6):
                ctx.exhaustive = False
                break
            reps = (1 if f == "leja" else 2) if quick else 6
            for r in range(reps):
                k += 1
                ivs = iv2[(k * 11) % len(iv2)]
                do_case(ctx, build_case(f, p, bn, k % len(DOMAINS), 2, lv, ivs))

    # ---- d = 3: seeded sample
    n3 = 6 if quick else 60
    for (f, p, bn) in main:
        lmax = 2 if f in HIERARCHICAL else 3
        for r in range(n3 if not (quick and f == "leja") else 3):
            if ctx.out_of_time(0.9):
                ctx.exhaustive = False
                break
            lv = [ctx.rng.randint(0, lmax) for _ in range(3)]
            ivs = [ctx.rng.choice(INTERVALS) for _ in range(3)]
            do_case(ctx, build_case(f, p, bn, ctx.rng.randrange(len(DOMAINS)), 3, lv, ivs))

    if not quick:
        # thorough: all boxes x all level vectors in 2-D on the [-1,3]^2 domain
        for (f, p, bn) in main:
            for lv in lv2:
                for ivs in iv2:
                    if ctx.out_of_time(0.97):
                        ctx.exhaustive = False
                        return
                    do_case(ctx, build_case(f, p, bn, 1, 2, lv, ivs))
    ctx.note("Lagrange: exactness demanded up to min(p, l+1); the property text says min(p, n-1), which differs only for p=4, l=2 (n=5) "
             "where the hierarchical construction reaches degree 3 only (see notes/C08.md, open question)")


def replay(ctx, case):
    if case.get("variant") == "modified-basis":
        return run_modified_trapezoidal(ctx, case)
    run_case(ctx, case)
