"""C18 bounded stand-in: runtime contracts on the real DataSet (sparseSpACE.DEMachineLearning) over random
operation sequences.  The harness keeps, for every live DataSet object, its own shadow (reference samples for
revert_scaling, snapshot of the (sample,label) pairs and of the public scaling attributes) and evaluates the
clauses of the property after every operation.  Nothing of DataSet is re-implemented; the oracles are
multiset comparisons / min-max identities computed here."""
import collections

import numpy as np

from bounded.api import quiet

M = "sparseSpACE.DEMachineLearning:DataSet."

BOUND = ("dimension 1..4; two start data sets per case with 0..20 samples each (empty, single sample, constant columns, duplicated "
         "extreme rows, coarse-grid values with many ties, labels 0..3 and unlabelled (-1) samples: none/some/all); sequences of "
         "<= 8 operations (quick and thorough) drawn from scale_range (range ends in [-3,3], width >= 0.5, with/without override), "
         "scale_factor (scalar or per-dimension, |f| in [0.5,3], either sign, never 0), shift_value (scalar or per-dimension, |v| <= 5), "
         "revert_scaling, shuffle, move_boundaries_to_front, split_labels, split_pieces (percentage in [0,1.2]), split_without_labels, "
         "remove_samples (distinct valid indices / lists containing an index <0, ==length or >length), concatenate (any two live sets, "
         "also a set with itself), copy, split_labels+DataSet.list_concatenate; every operation may target any of the <= 8 live sets "
         "(start sets and sets produced by earlier operations); plus 15 directed sequences per dimension; a third of the random cases are 'scaling-focused' (only scalings/shifts/factors/reverts/permutations/copies on one set, closed by revert_scaling). Scaling operations are not "
         "applied to empty sets and revert_scaling only to scaled sets (outside the property); exceptions of sample-moving operations "
         "with an EMPTY operand are tolerated if nothing is modified")
BOUND += "; fault / magnitude additions: three directed sequences with scaling factors 1e-9 / 1e9"
BOUND += "; round-10 additions: split_labels_join also with a fresh empty accumulator in front of / behind the pieces"
RULE = BOUND + ("; one case = (two start sets, operation list with all parameters and the numpy seed for shuffle); non-trivial = at least "
                "one start set is non-empty and the list is non-empty")
CLAUSES = {
    "B.scale.range_ends": "after scale_range((lo,hi)) (overriding or not) every sample that held the per-dimension minimum holds lo and every "
                          "sample that held the maximum holds hi, in every dimension with min<max (tol 1e-9*(1+|lo|+|hi|) + 1e-12*max|x|*(hi-lo)/(max-min))",
    "B.revert.restores": "revert_scaling returns normally on a scaled non-empty set and the (sample,label) pairs equal (abs/rel 1e-9) the pairs the "
                         "set held just before its most recent 'fresh' scaling operation (first scaling of an unscaled set or one with override_scaling=True), "
                         "whatever non-overriding scale_range/scale_factor/shift_value, shuffle, move_boundaries_to_front or copy came in between",
    "B.move.multiset": "shuffle, move_boundaries_to_front, split_labels, split_pieces, split_without_labels, remove_samples (valid distinct indices), "
                       "concatenate (equal scalings), copy, list_concatenate return normally and the multiset of (sample,label) pairs covered by the "
                       "operation (operand(s) = result(s) / removed + remaining) is exactly unchanged; non-mutating operations leave their operand exactly unchanged",
    "B.move.attributes": "the public scaling attributes (is_scaled, scaling range, scaling factor, original min, original max) of every produced set equal "
                         "those of the operand, and in-place sample-moving operations do not change them",
    "B.frame.others": "an operation applied to one data set leaves the multiset of (sample,label) pairs of every OTHER live data set exactly unchanged "
                      "(labels stay attached to their samples also where arrays are shared); the witness class names how the two sets are related "
                      "(split piece / scaled copy / sets that hold separate arrays in the unchanged tree)",
    "B.concat.refused": "concatenate of two non-empty sets whose is_scaled flag, scaling range or scaling factor differ raises and modifies neither operand",
    "B.remove.rejected": "remove_samples with an index <0, ==length or >length in the list raises and leaves samples, labels and attributes unchanged",
}

SCALE_OPS = ("scale_range", "scale_factor", "shift_value")


# ------------------------------------------------------------------------------------------- observation helpers
def X2(ds, d):
    X = np.asarray(ds.get_data()[0], dtype=float)
    if X.size == 0:
        return np.zeros((0, d))
    return X.reshape(len(X), -1)


def labels_of(ds):
    return [float(c) for c in np.asarray(ds.get_data()[1]).ravel()]


def pairs(ds, d):
    X = X2(ds, d)
    y = labels_of(ds)
    if len(y) != len(X):
        return [("LENGTH-MISMATCH", len(X), len(y))]
    return [(tuple(float(v) for v in row), c) for row, c in zip(X, y)]


def canon(v):
    if v is None:
        return None
    try:
        return np.asarray(v, dtype=float).tolist()
    except Exception:
        return [canon(x) for x in v]


def attrs(ds):
    return (bool(ds.is_scaled()), canon(ds.get_scaling_range()), canon(ds.get_scaling_factor()),
            canon(ds.get_original_min()), canon(ds.get_original_max()))


def scaling_relation(a, b):
    """'same' (exactly equal flag/range/factor), 'different' (clearly different) or 'unclear' (differ by rounding only)."""
    A, B = attrs(a)[:3], attrs(b)[:3]
    if A == B:
        return "same"
    if A[0] != B[0]:
        return "different"
    for u, v in zip(A[1:], B[1:]):
        if (u is None) != (v is None):
            return "different"
        if u is None:
            continue
        u, v = np.asarray(u, dtype=float), np.asarray(v, dtype=float)
        if u.shape != v.shape:
            return "different"
        if np.any(np.abs(u - v) > 1e-6 * (1 + np.maximum(np.abs(u), np.abs(v)))):
            return "different"
    return "unclear"


def match_pairs(got, ref, tol):
    """greedy label-wise matching of two lists of (sample,label) pairs up to tol; returns None or a message"""
    if len(got) != len(ref):
        return "length %d, expected %d" % (len(got), len(ref))
    used = [False] * len(got)
    for (rx, rl) in ref:
        hit = -1
        for k, (gx, gl) in enumerate(got):
            if not used[k] and gl == rl and len(gx) == len(rx) and all(abs(a - b) <= tol for a, b in zip(gx, rx)):
                hit = k
                break
        if hit < 0:
            return "no sample within %.1e of reference %s (label %s); got %s" % (tol, rx, rl, got[:4])
        used[hit] = True
    return None


class Entry:
    def __init__(self, ds, scaled=False, ref=None, tainted=False, src=None, via="own"):
        self.ds = ds
        self.scaled = scaled      # model of the scaled flag
        self.ref = ref            # list of (sample,label) pairs revert_scaling has to restore, or None (nothing promised)
        self.tainted = tainted    # scaling attributes were changed by an operation on ANOTHER data set
        # model of the label storage (only used to NAME the path of a B.frame.others violation, never to excuse one): entries with the
        # same token hold the same label array in the unchanged tree (copy() is shallow, split_pieces hands out views; scale_factor,
        # shift_value, revert_scaling, move_boundaries_to_front keep the array; every other operation builds a new one)
        self.tok = src.tok if src is not None else object()
        self.via = ("split" if (via == "split" or src.via == "split") else "copy") if src is not None else "own"
        self.renewed_by = "construction"

    def renew(self, by):
        self.tok, self.via, self.renewed_by = object(), "own", by


# ------------------------------------------------------------------------------------------- one case
def run_case(ctx, case):
    from sparseSpACE.DEMachineLearning import DataSet
    d = case["d"]
    pool = []
    for key in ("A", "B"):
        X = np.array(case[key]["X"], dtype=float).reshape(-1, d) if len(case[key]["X"]) else np.array([])
        y = np.array(case[key]["y"], dtype=np.int64) if len(case[key]["y"]) else np.array([])
        with quiet():
            pool.append(Entry(DataSet((X, y), name=key)))
    for op in case["ops"]:
        apply_op(ctx, DataSet, pool, d, op)


def apply_op(ctx, DataSet, pool, d, op):
    kind = op["op"]
    e = pool[op["t"] % len(pool)]
    ds = e.ds
    site = M + ("remove_samples" if kind == "remove_bad" else "list_concatenate" if kind == "split_labels_join" else kind)
    before_all = [(pairs(q.ds, d), attrs(q.ds)) for q in pool]
    covered = [e]
    new_entries = []
    P0, A0 = pairs(ds, d), attrs(ds)
    n = len(P0)
    empty = n == 0

    def multiset(*lists):
        c = collections.Counter()
        for l in lists:
            c.update(l)
        return c

    def raise_site(default_site, default_wc, a=None):
        # IndexError of same_scaling for 1-D sets whose scaling range is array-valued (after scale_factor/shift_value): own witness class
        a = A0 if a is None else a
        if d == 1 and a[0] and isinstance(a[1], list) and a[1] and isinstance(a[1][0], list):
            return M + "same_scaling", "dim1-array-valued-range"
        return default_site, default_wc

    def tolerated_empty(exc, operands):
        # an exception of a sample-moving operation with an empty operand: only "nothing modified" is demanded
        if len(ctx.notes) < 10:
            ctx.note("tolerated %s on empty operand in %s" % (type(exc).__name__, kind))
        for q, (p_, a_) in operands:
            ctx.check("B.move.multiset", pairs(q.ds, d) == p_, site, "empty-operand-modified", "operand changed by a failing %s" % kind)

    if kind in SCALE_OPS:
        if empty:
            return
        fresh = (not e.scaled) or op["ov"]
        if fresh:
            e.ref, e.tainted = list(P0), False
        Xb = X2(ds, d)
        if kind == "scale_range":
            lo, hi = op["lo"], op["hi"]
            ok = False
            with ctx.guard("B.scale.range_ends", site, "raises"):
                with quiet():
                    ds.scale_range((lo, hi), override_scaling=op["ov"])
                ok = True
            if ok:
                Xa = X2(ds, d)
                good = Xa.shape == Xb.shape
                msg = "shape %s -> %s" % (Xb.shape, Xa.shape)
                if good:
                    for j in range(d):
                        mn, mx = Xb[:, j].min(), Xb[:, j].max()
                        if not mx > mn:
                            continue
                        tol = 1e-9 * (1 + abs(lo) + abs(hi)) + 1e-12 * np.abs(Xb[:, j]).max() * (hi - lo) / (mx - mn)
                        atmin, atmax = Xa[Xb[:, j] == mn, j], Xa[Xb[:, j] == mx, j]
                        if np.any(np.abs(atmin - lo) > tol) or np.any(np.abs(atmax - hi) > tol):
                            good = False
                            msg = "dim %d: min-samples -> %s (want %s), max-samples -> %s (want %s)" % (j, atmin[:3], lo, atmax[:3], hi)
                ctx.check("B.scale.range_ends", good, site, "override" if op["ov"] else ("fresh" if fresh else "rescale"), msg)
        else:
            val = op["f"] if kind == "scale_factor" else op["v"]
            arg = np.array(val, dtype=float) if isinstance(val, list) else val
            with ctx.guard("B.revert.restores", site, "scaling-raises"):
                with quiet():
                    getattr(ds, kind)(arg, override_scaling=op["ov"])
        e.scaled = True
    elif kind == "revert_scaling":
        if empty or not e.scaled:
            return
        ok = False
        wc = "factor-aliased-by-related-set" if e.tainted else "plain"
        with ctx.guard("B.revert.restores", site, wc + "-raises"):
            with quiet():
                ds.revert_scaling()
            ok = True
        if ok and e.ref is not None:
            scale = max([1.0] + [abs(v) for (x, _) in e.ref for v in x])
            msg = match_pairs(pairs(ds, d), e.ref, 1e-9 * (1 + scale))
            ctx.check("B.revert.restores", msg is None, site, wc, msg)
        e.scaled, e.ref, e.tainted = False, None, False
    elif kind in ("shuffle", "move_boundaries_to_front"):
        if kind == "shuffle":
            np.random.seed(op["seed"])
        try:
            with quiet():
                getattr(ds, kind)()
        except Exception as exc:  # noqa
            if empty:
                tolerated_empty(exc, [(e, (P0, A0))])
            else:
                with ctx.guard("B.move.multiset", site, "raises"):
                    raise
        else:
            ctx.check("B.move.multiset", multiset(pairs(ds, d)) == multiset(P0), site, "pairs", "pairs changed: %s -> %s" % (P0[:4], pairs(ds, d)[:4]))
            ctx.check("B.move.attributes", attrs(ds) == A0, site, "attrs", "%s -> %s" % (A0, attrs(ds)))
    elif kind in ("split_labels", "split_pieces", "split_without_labels", "copy", "split_labels_join"):
        try:
            with quiet():
                if kind == "split_pieces":
                    out = list(ds.split_pieces(op["p"]))
                elif kind == "copy":
                    out = [ds.copy()]
                elif kind == "split_without_labels":
                    out = list(ds.split_without_labels())
                else:
                    out = list(ds.split_labels())
        except Exception as exc:  # noqa
            if empty:
                tolerated_empty(exc, [(e, (P0, A0))])
            else:
                with ctx.guard("B.move.multiset", site if kind != "split_labels_join" else M + "split_labels", "raises"):
                    raise
            out = None
        if out is not None:
            s2 = site if kind != "split_labels_join" else M + "split_labels"
            ctx.check("B.move.multiset", multiset(*[pairs(o, d) for o in out]) == multiset(P0), s2, "pairs",
                      "union of results != operand: %s vs %s" % ([pairs(o, d)[:3] for o in out], P0[:4]))
            ctx.check("B.move.multiset", pairs(ds, d) == P0, s2, "operand-changed", "operand changed")
            bad = [attrs(o) for o in out if attrs(o) != A0]
            ctx.check("B.move.attributes", not bad, s2, "attrs", "operand %s, result %s" % (A0, bad[:1]))
            for o in out:
                new_entries.append(Entry(o, scaled=e.scaled, ref=(list(e.ref) if (kind == "copy" and e.ref is not None) else None),
                                         tainted=e.tainted if kind == "copy" else False,
                                         src=e if kind in ("copy", "split_pieces") else None, via="split" if kind == "split_pieces" else "copy"))
            if kind == "split_labels_join":
                try:
                    with quiet():
                        joined = DataSet.list_concatenate(out)
                except Exception as exc:  # noqa
                    if empty:
                        tolerated_empty(exc, [(e, (P0, A0))])
                    else:
                        with ctx.guard("B.move.multiset", *raise_site(site, "raises")):
                            raise
                else:
                    ctx.check("B.move.multiset", multiset(pairs(joined, d)) == multiset(P0), site, "pairs", "joined pieces != operand")
                    if not empty:
                        ctx.check("B.move.attributes", attrs(joined) == A0, site, "attrs", "operand %s, joined %s" % (A0, attrs(joined)))
                    if all(joined is not o for o in out):
                        new_entries.append(Entry(joined, scaled=e.scaled))
                # the accumulator idiom: a fresh EMPTY (unscaled) data set in front of / behind the pieces -- empty sets contribute nothing, so samples, labels and
                # the scaling attributes are those of the join of the pieces (missed seed C18_a: attributes taken from the first list element, empty or not)
                if not empty:
                    for where in ("front", "back"):
                        acc = DataSet(tuple([np.array([]), np.array([])]))
                        seq_ = [acc] + list(out) if where == "front" else list(out) + [acc]
                        j2 = None
                        with ctx.guard("B.move.multiset", *raise_site(site, "raises-with-empty-accumulator")):
                            with quiet():
                                j2 = DataSet.list_concatenate(seq_)
                        if j2 is not None:
                            ctx.check("B.move.multiset", multiset(pairs(j2, d)) == multiset(P0), site, "pairs-with-empty-accumulator-" + where, "joined pieces != operand")
                            ctx.check("B.move.attributes", attrs(j2) == A0, site, "attrs-with-empty-accumulator-" + where, "operand %s, joined %s" % (A0, attrs(j2)))
    elif kind == "remove_samples":
        idx = list(dict.fromkeys(min(int(f * n), n - 1) for f in op["idx"])) if n else []
        removed = None
        with ctx.guard("B.move.multiset", *raise_site(site, "raises")):
            with quiet():
                removed = ds.remove_samples(list(idx))
        if idx:
            e.ref = None
        if removed is not None:
            R, Q = pairs(removed, d), pairs(ds, d)
            ctx.check("B.move.multiset", multiset(R) == multiset([P0[i] for i in idx]) and multiset(R, Q) == multiset(P0), site, "pairs",
                      "indices %s of %s: removed %s, remaining %s" % (idx, P0[:6], R[:4], Q[:4]))
            ctx.check("B.move.attributes", attrs(ds) == A0 and (not idx or attrs(removed) == A0), site, "attrs",
                      "operand before %s after %s removed %s" % (A0, attrs(ds), attrs(removed)))
            new_entries.append(Entry(removed, scaled=e.scaled if idx else False))
    elif kind == "remove_bad":
        idx = list(dict.fromkeys(min(int(f * n), n - 1) for f in op["good"])) if n else []
        kinds = []
        for b, k in op["bad"]:
            kinds.append(b)
            bad_i = -k if b == "neg" else (n if b == "len" else n + k)
            idx.insert(min(len(idx), k % (len(idx) + 1)), bad_i)
        wc = "+".join(sorted(set(kinds)))
        try:
            with quiet():
                ds.remove_samples(list(idx))
        except Exception:  # noqa  -- the rejection demanded by the property (ValueError for <0 and >length, IndexError for ==length)
            ctx.check("B.remove.rejected", pairs(ds, d) == P0 and attrs(ds) == A0, site, "modified-" + wc, "data modified by a rejected removal %s" % idx)
        else:
            ctx.check("B.remove.rejected", False, site, "accepted-" + wc, "indices %s accepted for length %d" % (idx, n))
            e.ref = None
    elif kind == "concatenate":
        u = pool[op["u"] % len(pool)]
        covered.append(u)
        Pu, Au = pairs(u.ds, d), attrs(u.ds)
        rel = scaling_relation(ds, u.ds)
        any_empty = empty or len(Pu) == 0
        try:
            with quiet():
                res = ds.concatenate(u.ds)
        except Exception as exc:  # noqa
            res = None
            unchanged = pairs(ds, d) == P0 and pairs(u.ds, d) == Pu and attrs(ds) == A0 and attrs(u.ds) == Au
            if any_empty:
                tolerated_empty(exc, [(e, (P0, A0)), (u, (Pu, Au))])
            elif rel == "different":
                ctx.check("B.concat.refused", unchanged, site, "refused-but-modified", "operands modified by a refused concatenation")
            elif rel == "same":
                with ctx.guard("B.move.multiset", *raise_site(site, "raises-equal-scaling")):
                    raise
        else:
            if not any_empty and rel == "different":
                ctx.check("B.concat.refused", False, site, "different-scaling-accepted",
                          "scalings %s and %s concatenated without refusal" % (A0[:3], Au[:3]))
            else:
                ctx.check("B.move.multiset", multiset(pairs(res, d)) == multiset(P0, Pu), site, "pairs", "result != union of operands")
                ctx.check("B.move.multiset", pairs(ds, d) == P0 and pairs(u.ds, d) == Pu, site, "operand-changed", "operand changed")
                if not any_empty:
                    ctx.check("B.move.attributes", attrs(res) == A0, site, "attrs", "operand %s, result %s" % (A0, attrs(res)))
                if all(res is not q.ds for q in pool):
                    new_entries.append(Entry(res, scaled=bool(res.is_scaled())))
    else:
        raise ValueError("unknown op %s" % kind)

    if kind in ("scale_range", "shuffle", "remove_samples") and not (kind == "scale_range" and empty):
        e.renew(kind)
    # frame: every other live data set keeps its pairs; note attribute changes by foreign operations (classification of revert failures)
    for q, (pq, aq) in zip(pool, before_all):
        if any(q is c for c in covered):
            continue
        now = pairs(q.ds, d)
        if multiset(now) != multiset(pq):
            same_samples = [x for x, _ in now] == [x for x, _ in pq]
            if kind == "move_boundaries_to_front" and same_samples:
                if e.tok is q.tok:      # label array shared in the unchanged tree as well: name the path
                    wc = "labels-permuted-through-shared-array" if "split" in (e.via, q.via) else "labels-shared-with-scaled-copy"
                else:                   # the two sets hold separate label arrays in the unchanged tree
                    wc = "labels-shared-unexpectedly-after-%s+%s" % tuple(sorted((e.renewed_by, q.renewed_by)))
            else:
                wc = "other-set-changed"
            ctx.check("B.frame.others", False, site, wc, "%s on one set changed another live set: %s -> %s" % (kind, pq[:4], now[:4]))
            q.ref = None        # reported here; the corrupted set is no longer a valid witness for revert_scaling
        else:
            ctx.check("B.frame.others", True, site)
        if attrs(q.ds) != aq:
            q.tainted = True
    for ne in new_entries:
        if len(pool) < 8:
            pool.append(ne)


# ------------------------------------------------------------------------------------------- generation
def gen_set(rng, d, n):
    style = rng.choice(["grid", "float", "float", "float2"])
    X = []
    for _ in range(n):
        if style == "grid":
            X.append([rng.randint(-6, 6) * 0.5 for _ in range(d)])
        elif style == "float":
            X.append([round(rng.uniform(-10, 10), 3) for _ in range(d)])
        else:
            X.append([round(rng.uniform(0, 1), 2) for _ in range(d)])
    if n >= 2 and rng.random() < 0.5:          # duplicated extreme rows / ties in the extremes
        for j in range(d):
            col = [r[j] for r in X]
            for _ in range(rng.randint(1, 2)):
                X[rng.randrange(n)][j] = rng.choice([min(col), max(col)])
    if n >= 2 and rng.random() < 0.15:         # constant column
        j = rng.randrange(d)
        for r in X:
            r[j] = X[0][j]
    if n >= 3 and rng.random() < 0.3:          # exact duplicate rows
        X[rng.randrange(n)] = list(X[rng.randrange(n)])
    k = rng.randint(1, 4)
    mode = rng.choice(["none", "none", "some", "some", "all"])
    y = []
    for _ in range(n):
        c = rng.randrange(k)
        if mode == "all" or (mode == "some" and rng.random() < 0.35):
            c = -1
        y.append(c)
    return {"X": X, "y": y}


def gen_vec(rng, d, f):
    return [f() for _ in range(d)] if rng.random() < 0.4 else f()


KINDS = ["scale_range", "scale_factor", "shift_value", "revert_scaling", "shuffle", "move_boundaries_to_front", "split_labels",
         "split_pieces", "split_without_labels", "remove_samples", "remove_bad", "concatenate", "copy", "split_labels_join"]
W_MIXED = [4, 3, 3, 5, 1.5, 2, 1, 2.5, 1, 1.5, 1, 3, 2, 0.7]
W_SCALING = [4, 5, 4, 3, 0.7, 0.7, 0, 0, 0, 0, 0, 0, 0.6, 0]     # one set, scalings/shifts/factors/reverts (+ permutations, copies)


def gen_op(rng, d, weights=W_MIXED, targets=(0, 0, 1, 2, 3, 4, 5, 6, 7, 7)):
    kind = rng.choices(KINDS, weights=weights)[0]
    t = rng.choice(targets)
    op = {"op": kind, "t": t}
    if kind in SCALE_OPS:
        op["ov"] = rng.random() < 0.25
    if kind == "scale_range":
        lo = round(rng.uniform(-3, 2.5), 2) if rng.random() < 0.7 else 0.0
        op["lo"], op["hi"] = lo, round(lo + rng.choice([0.5, 1.0, 1.0, 2.0, rng.uniform(0.5, 3)]), 3)
    elif kind == "scale_factor":
        op["f"] = gen_vec(rng, d, lambda: rng.choice([-1, 1, 1]) * rng.choice([0.5, 2.0, 1.5, 3.0, 0.75, round(rng.uniform(0.5, 3), 3)]))
        if not isinstance(op["f"], list) and rng.random() < 0.2:
            op["f"] = rng.choice([-2, 2, 3])
    elif kind == "shift_value":
        op["v"] = gen_vec(rng, d, lambda: round(rng.uniform(-5, 5), 3))
    elif kind == "shuffle":
        op["seed"] = rng.randrange(2 ** 31)
    elif kind == "split_pieces":
        op["p"] = rng.choice([0.0, 0.5, 1.0, 1.2, 0.25, 0.8, round(rng.random(), 3)])
    elif kind == "remove_samples":
        op["idx"] = [round(rng.random(), 4) for _ in range(rng.choice([0, 1, 1, 2, 3, 30]))]
    elif kind == "remove_bad":
        op["good"] = [round(rng.random(), 4) for _ in range(rng.choice([0, 0, 1, 2]))]
        op["bad"] = [[rng.choice(["neg", "len", "over"]), rng.randint(1, 3)] for _ in range(rng.choice([1, 1, 2]))]
    elif kind == "concatenate":
        op["u"] = rng.choice([0, 1, 1, 2, 3, 4, 5, 6, 7])
    return op


def directed(d):
    """sequences every seed runs: pool starts as [A, B]; produced sets are appended in order"""
    sr = lambda t, lo, hi, ov=False: {"op": "scale_range", "t": t, "lo": lo, "hi": hi, "ov": ov}
    sf = lambda t, f, ov=False: {"op": "scale_factor", "t": t, "f": f, "ov": ov}
    sv = lambda t, v, ov=False: {"op": "shift_value", "t": t, "v": v, "ov": ov}
    rv = lambda t: {"op": "revert_scaling", "t": t}
    o = lambda k, t, **kw: dict({"op": k, "t": t}, **kw)
    return [
        [sr(0, 0.0, 1.0), sf(0, -2), sv(0, 5.0), rv(0)],
        [sr(0, 0.0, 1.0), o("copy", 0), sf(2, 2.0), rv(0), rv(2)],
        [sr(0, 0.0, 1.0), o("split_pieces", 0, p=0.5), sf(2, 2.0), sr(3, -1.0, 1.0), rv(0)],
        [o("split_pieces", 0, p=0.5), o("move_boundaries_to_front", 0), o("move_boundaries_to_front", 3), o("concatenate", 2, u=3)],
        [sr(0, 0.0, 1.0), sr(1, 0.0, 2.0), o("concatenate", 0, u=1), o("concatenate", 1, u=0)],
        [sr(0, 0.0, 1.0), o("concatenate", 0, u=1), o("concatenate", 1, u=0), o("concatenate", 0, u=0)],
        [sf(0, [1.5] * d), sr(0, -1.0, 1.0), sv(0, [0.5] * d, True), sf(0, 2.0), sr(0, 0.0, 3.0), rv(0), sr(0, 0.0, 1.0), rv(0)],
        [sr(0, 0.005, 0.995, True), o("shuffle", 0, seed=7), o("move_boundaries_to_front", 0), o("split_labels", 0), o("split_pieces", 0, p=0.8),
         o("copy", 0), rv(0)],
        [o("remove_bad", 0, good=[0.1], bad=[["len", 1]]), o("remove_bad", 0, good=[], bad=[["neg", 1]]), o("remove_bad", 1, good=[0.5, 0.7], bad=[["over", 1]]),
         o("remove_samples", 0, idx=[0.0, 0.99]), o("remove_samples", 0, idx=[])],
        [sv(0, 1.0), o("split_without_labels", 0), o("concatenate", 3, u=2), o("split_labels_join", 0), sr(0, 0.0, 1.0), rv(0)],
        [o("copy", 0), sv(2, 1.0), o("move_boundaries_to_front", 2), o("copy", 1), sf(3, 2.0), o("move_boundaries_to_front", 1)],
        [o("copy", 0), sr(2, 0.005, 0.995), o("move_boundaries_to_front", 2), rv(2), sr(0, 0.0, 1.0), o("copy", 0), sr(3, 0.0, 2.0), o("move_boundaries_to_front", 3)],
        [o("split_pieces", 0, p=0.6), sr(2, 0.0, 1.0), o("move_boundaries_to_front", 2), rv(2), o("concatenate", 2, u=3)],
        [sv(0, 1.0), o("remove_samples", 0, idx=[0.0, 0.6]), sf(1, 2.0), o("split_pieces", 1, p=0.5), o("concatenate", 3, u=4)],
        [sr(0, 0.0, 1.0), sf(0, [2.0, 3.0, 0.5, -1.5][:d]), sv(0, [1.0, -2.0, 0.0, 4.0][:d]), sr(0, -1.0, 0.0), sf(0, [-0.5, 1.5, 2.0, 3.0][:d]), rv(0)],
        # legitimate scaling factors far below numpy's default absolute tolerance (a unit conversion nm -> m; a column of large spread scaled into a unit range):
        # reverting must still undo them (missed seed C18_9: "factor close to zero" guard with isclose)
        [sf(0, 1e-9), rv(0)],
        [sf(0, 1e9), sr(0, 0.0, 1.0), sv(0, 1.0), rv(0)],
        [sr(0, 0.0, 1.0), sf(0, [1e-9, 2.0, 1e-10, -1e-9][:d]), rv(0)],        # (no shift after the tiny factor: that would lose the digits in floating point)
    ]


def run(ctx):
    rng = ctx.rng
    sizes = [0, 1, 1, 2, 2, 3, 4, 5, 6, 9, 14, 20]
    for d in range(1, 5):
        for k, ops in enumerate(directed(d)):
            for rep in range(2 if ctx.quick() else 6):
                case = {"kind": "directed", "d": d, "A": gen_set(rng, d, rng.choice([3, 6, 10, 12])), "B": gen_set(rng, d, rng.choice([2, 5, 10])), "ops": ops}
                ctx.case(case)
                run_case(ctx, case)
    ncases = 4500 if ctx.quick() else 150000
    for k in range(ncases):
        if ctx.out_of_time(0.85):
            ctx.note("stopped after %d random cases (time)" % k)
            break
        d = rng.randint(1, 4)
        if k % 3 == 2:      # scaling-focused family: all operations on the first set (and its copies), closed by revert_scaling
            tg = (0, 0, 0, 2)
            ops = [gen_op(rng, d, W_SCALING, tg) for _ in range(rng.randint(1, 7))] + [{"op": "revert_scaling", "t": 0}]
            case = {"kind": "scaling", "d": d, "A": gen_set(rng, d, rng.choice(sizes[1:])), "B": gen_set(rng, d, rng.choice([0, 2])), "ops": ops}
        else:
            case = {"kind": "random", "d": d, "A": gen_set(rng, d, rng.choice(sizes)), "B": gen_set(rng, d, rng.choice(sizes)),
                    "ops": [gen_op(rng, d) for _ in range(rng.randint(1, 8))]}
        ctx.case(case, nontrivial=bool(case["A"]["y"] or case["B"]["y"]))
        run_case(ctx, case)


def replay(ctx, case):
    run_case(ctx, case)
