"""native replay handlers for C18 counter-models (DataSet bookkeeping)"""
from bounded.replay_models import handler


@handler("C18.concatenate")
def c18_concatenate(inp, obligation):
    """the real DataSet.concatenate: rows and labels appended in order, attributes carried, inputs untouched; sets with different scalings refused"""
    import numpy as np
    from sparseSpACE.DEMachineLearning import DataSet
    rng = np.random.RandomState(3)
    bad = []

    def mk(n, scale=None):
        ds = DataSet((rng.uniform(-1, 2, (n, 2)), rng.randint(0, 3, n).astype(np.int64)))
        if scale is not None:
            ds.scale_range(scale)
        return ds
    # same scaling: appended in order
    for (na, nb, sc) in ((4, 3, None), (5, 1, (0.0, 1.0)), (1, 6, None)):
        a = mk(na, sc)
        b = mk(nb)
        if sc is not None:      # give b exactly a's scaling attributes
            a._update_internal(b)
        a0, b0 = (a[0].copy(), a[1].copy()), (b[0].copy(), b[1].copy())
        c = a.concatenate(b)
        if not (np.array_equal(c[0], np.concatenate((a0[0], b0[0]))) and np.array_equal(c[1], np.concatenate((a0[1], b0[1])))):
            bad.append("rows / labels of the result are not the receiver's followed by the argument's (%d + %d samples)" % (na, nb))
        if not (np.array_equal(a[0], a0[0]) and np.array_equal(a[1], a0[1]) and np.array_equal(b[0], b0[0]) and np.array_equal(b[1], b0[1])):
            bad.append("an input was modified by concatenate")
        if c.is_scaled() != a.is_scaled() or not a.same_scaling(c):
            bad.append("the result does not carry the receiver's scaling attributes")
    # different scalings must be refused
    if "different-scalings-are-refused" in obligation or not bad:
        for sa_, sb_ in (((0.0, 1.0), None), (None, (0.0, 1.0)), ((0.0, 1.0), (0.0, 2.0))):
            a, b = mk(4, sa_), mk(3, sb_)
            try:
                a.concatenate(b)
                bad.append("concatenate accepted data sets with different scalings (receiver scaled to %r, argument scaled to %r)" % (sa_, sb_))
            except ValueError:
                pass
    return bool(bad), {"violations": bad[:4]}
