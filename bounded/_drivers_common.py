"""Shared helpers of the layer-B harnesses for the adaptive drivers (C04, C05, C13, C14).

Nothing in here re-implements code under test.  It provides
  * integrands with vector output described by JSON-able specs (own numpy formulas, own analytic integrals),
    wrapped in a subclass of the library's Function base class that counts the distinct points at which
    the integrand was really evaluated,
  * a factory that builds the real strategy objects of /repo from a JSON-able configuration,
  * an instrumentation of ONE instance (wrappers around evaluate_operation / refine, inside this process),
  * independent recomputation oracles (sum over component grids of coefficient * sum_i w_i f(p_i)),
  * snapshots of refinement structures for equality tests.
"""
import copy
import itertools
import logging
import math

import numpy as np

from bounded import api
from bounded.api import quiet

api.use_repo()
logging.disable(logging.CRITICAL)          # the library logs into ./log_sg on every step; not part of any contract

from sparseSpACE.Function import Function  # noqa: E402


# =====================================================================================================
# integrands
# =====================================================================================================

def _t(X, a, b):
    return (X - a) / (b - a)


def comp_values(spec, X, a, b):
    """Value of one scalar component (spec = JSON list) at the points X (n,d)."""
    k = spec[0]
    d = X.shape[1]
    if k == "const":
        return np.full(X.shape[0], float(spec[1]))
    if k == "scale":
        return float(spec[1]) * comp_values(spec[2], X, a, b)
    if k == "lincomb":
        out = np.zeros(X.shape[0])
        for c, s in zip(spec[1], spec[2]):
            out += float(c) * comp_values(s, X, a, b)
        return out
    if k == "mono":  # prod_{j in S} x_j in the ORIGINAL coordinates
        out = np.ones(X.shape[0])
        for j in spec[1]:
            out = out * X[:, j]
        return out
    T = _t(X, a, b)
    if k == "hat":  # tensor product of 1-D hierarchical hat functions, level 0 = the two boundary functions
        out = np.ones(X.shape[0])
        for j in range(d):
            lev, idx = spec[1][j], spec[2][j]
            if lev == 0:
                out = out * (T[:, j] if idx == 1 else 1.0 - T[:, j])
            else:
                out = out * np.maximum(0.0, 1.0 - np.abs(T[:, j] * 2 ** lev - idx))
        return out
    if k == "corner":
        c = np.asarray(spec[1], float)
        return (1.0 + T @ c) ** (-(d + 1))
    if k == "prodpeak":
        c, m = np.asarray(spec[1], float), np.asarray(spec[2], float)
        return 10.0 ** (-d) / np.prod(c ** (-2.0) + (T - m) ** 2, axis=1)
    if k == "osc":
        c = np.asarray(spec[1], float)
        return np.cos(2 * math.pi * float(spec[2]) + T @ c)
    if k == "disc":
        c, bd = np.asarray(spec[1], float), np.asarray(spec[2], float)
        out = np.exp(-(T @ c))
        out[np.any(T >= bd, axis=1)] = 0.0
        return out
    if k == "c0":
        c, m = np.asarray(spec[1], float), np.asarray(spec[2], float)
        return np.exp(-(np.abs(T - m) @ c))
    if k == "gauss":
        c, m = np.asarray(spec[1], float), np.asarray(spec[2], float)
        return np.exp(-(((T - m) ** 2) @ c))
    if k == "addgauss":  # sum of one-dimensional Gaussians: surpluses of dimension j live near m_j only
        c, m = np.asarray(spec[1], float), np.asarray(spec[2], float)
        return np.sum(np.exp(-c * (T - m) ** 2), axis=1)
    if k == "smooth":  # seeded random smooth function
        r = np.random.RandomState(int(spec[1]) % (2 ** 32))
        out = np.zeros(X.shape[0])
        for _ in range(3):
            w = r.uniform(-4, 4, d)
            out = out + r.uniform(-1, 1) * np.cos(T @ w + r.uniform(0, 2 * math.pi))
        g = r.uniform(-1, 1, d)
        return out + r.uniform(0.2, 1.0) * np.exp(T @ g)
    raise ValueError("unknown component spec %r" % (spec,))


def comp_integral(spec, a, b):
    """Analytic integral over [a,b] of the component kinds that are used as exactness probes."""
    k = spec[0]
    d = len(a)
    vol = float(np.prod(b - a))
    if k == "const":
        return float(spec[1]) * vol
    if k == "scale":
        return float(spec[1]) * comp_integral(spec[2], a, b)
    if k == "lincomb":
        return float(sum(float(c) * comp_integral(s, a, b) for c, s in zip(spec[1], spec[2])))
    if k == "mono":
        out = 1.0
        for j in range(d):
            out *= (b[j] ** 2 - a[j] ** 2) / 2.0 if j in spec[1] else (b[j] - a[j])
        return float(out)
    if k == "hat":
        out = 1.0
        for j in range(d):
            lev = spec[1][j]
            out *= (b[j] - a[j]) * (0.5 if lev == 0 else 2.0 ** (-lev))
        return float(out)
    raise ValueError("no analytic integral for %r" % (spec,))


def gauss_reference(comps, a, b, n=20):
    """Own tensor Gauss-Legendre quadrature (reference solutions for C13; only needs to be 'some' reference)."""
    d = len(a)
    x, w = np.polynomial.legendre.leggauss(n)
    axes = [0.5 * (b[j] - a[j]) * x + 0.5 * (b[j] + a[j]) for j in range(d)]
    ws = [0.5 * (b[j] - a[j]) * w for j in range(d)]
    X = np.array(list(itertools.product(*axes)))
    W = np.prod(np.array(list(itertools.product(*ws))), axis=1)
    return np.array([float(W @ comp_values(s, X, a, b)) for s in comps])


class VecF(Function):
    """Vector valued integrand given by component specs; records the distinct points of real evaluations."""

    def __init__(self, comps, a, b):
        super().__init__()
        self.comps = [list(c) for c in comps]
        self.dom_a = np.asarray(a, float)
        self.dom_b = np.asarray(b, float)
        self.seen = set()

    def output_length(self):
        return len(self.comps)

    def values(self, X):
        """Oracle evaluation (no bookkeeping)."""
        X = np.asarray(X, float).reshape(-1, len(self.dom_a))
        if X.shape[0] == 0:
            return np.zeros((0, len(self.comps)))
        return np.stack([comp_values(s, X, self.dom_a, self.dom_b) for s in self.comps], axis=1)

    def eval(self, coordinates):
        self.seen.add(tuple(float(c) for c in coordinates))
        return self.values(np.asarray(coordinates, float).reshape(1, -1))[0]

    def eval_vectorized(self, coordinates):
        C = np.asarray(coordinates, float)
        lead = C.shape[:-1]
        X = C.reshape(-1, C.shape[-1])
        self.seen.update(tuple(float(c) for c in row) for row in X)
        return self.values(X).reshape(*lead, len(self.comps))


class ModelFault(Exception):
    """the user's model fails at one evaluation (fault injection of the harnesses)"""


def arm_fault(f, k):
    """the k-th call (counted from 1 over eval and eval_vectorized together) of the user function raises ModelFault once; k <= 0 only counts.
    Returns the counter dict {"n": calls so far, "k": k}."""
    st = {"n": 0, "k": int(k)}
    cls = type(f)

    def wrap(name):
        orig = getattr(cls, name)

        def call(coordinates):
            st["n"] += 1
            if st["n"] == st["k"]:
                raise ModelFault("model evaluation number %d failed" % st["k"])
            return orig(f, coordinates)
        setattr(f, name, call)
    wrap("eval")
    wrap("eval_vectorized")
    return st


def random_genz(rng, d, kind=None):
    """One JSON-able Genz-family / smooth component spec drawn from rng (random.Random)."""
    kind = kind or rng.choice(["corner", "prodpeak", "osc", "disc", "c0", "gauss", "smooth"])
    c = [round(rng.uniform(0.5, 4.0), 3) for _ in range(d)]
    m = [round(rng.uniform(0.15, 0.85), 3) for _ in range(d)]
    if kind == "corner":
        return ["corner", c]
    if kind == "prodpeak":
        return ["prodpeak", c, m]
    if kind == "osc":
        return ["osc", c, round(rng.uniform(0, 1), 3)]
    if kind == "disc":
        return ["disc", c, m]
    if kind == "c0":
        return ["c0", c, m]
    if kind == "gauss":
        return ["gauss", [round(3 * x, 3) for x in c], m]
    return ["smooth", rng.randrange(10 ** 6)]


GENZ_KINDS = ["corner", "prodpeak", "osc", "disc", "c0", "gauss", "smooth"]


# =====================================================================================================
# building the real objects
# =====================================================================================================

def make_grid(gspec, a, b):
    from sparseSpACE import Grid as G
    t = gspec["type"]
    if t == "Trapezoidal":
        return G.TrapezoidalGrid(a, b, boundary=gspec.get("boundary", True), modified_basis=gspec.get("modified", False))
    if t == "GlobalTrapezoidal":
        return G.GlobalTrapezoidalGrid(a, b, boundary=gspec.get("boundary", True), modified_basis=gspec.get("modified", False))
    if t == "ClenshawCurtis":
        return G.ClenshawCurtisGrid(a, b, boundary=gspec.get("boundary", True))
    if t == "GaussLegendre":
        return G.GaussLegendreGrid(a, b)
    if t == "Leja":
        return G.LejaGrid(a, b, boundary=gspec.get("boundary", True))
    if t == "Simpson":
        return G.SimpsonGrid(a, b, boundary=gspec.get("boundary", True))
    if t == "GlobalSimpson":
        return G.GlobalSimpsonGrid(a, b, boundary=gspec.get("boundary", True), modified_basis=gspec.get("modified", False))
    if t == "Lagrange":
        return G.LagrangeGrid(a, b, boundary=gspec.get("boundary", True), p=gspec.get("p", 2))
    raise ValueError(t)


def build(cfg, comps, reference=None, reuse=None):
    """Build (instance, errorOperator, f) of the real library for a JSON-able cfg.

    cfg = {"strategy": standard|dimadapt|dimwise|extend|cell, "a": [...], "b": [...], "grid": {...},
           "norm": 1|2|"inf", "opts": {constructor options of the strategy}}
    """
    from sparseSpACE.GridOperation import Integration
    from sparseSpACE import ErrorCalculator as EC
    a = np.asarray(cfg["a"], float)
    b = np.asarray(cfg["b"], float)
    d = len(a)
    if reuse is not None:
        # a second strategy instance on the SAME operation / integrand objects (as the repository's own tests do)
        op, f = reuse
    else:
        f = VecF(comps, a, b)
        grid = make_grid(cfg["grid"], a, b)
        ref = None if reference is None else np.asarray(reference, float)
        if cfg.get("late_reference"):
            # the reference solution is handed over AFTER the operation was constructed, through the library's own setter (the UQ workflow:
            # UncertaintyQuantification is an Integration with distribution-weighted grids; uniform distributions here)
            from sparseSpACE.GridOperation import UncertaintyQuantification
            from sparseSpACE.Grid import GlobalTrapezoidalGridWeighted
            op = UncertaintyQuantification(f, "Uniform", a, b)
            grid = GlobalTrapezoidalGridWeighted(a, b, op, boundary=bool(cfg["grid"].get("boundary", True)))
            op.set_grid(grid)
            op.set_reference_solution(ref)
        else:
            op = Integration(f=f, grid=grid, dim=d, reference_solution=ref)
    norm = cfg.get("norm", "inf")
    norm = np.inf if norm == "inf" else norm
    opts = dict(cfg.get("opts", {}))
    st = cfg["strategy"]
    if st == "standard":
        from sparseSpACE.StandardCombi import StandardCombi
        return StandardCombi(a, b, operation=op, norm=norm), None, f
    if st == "dimadapt":
        from sparseSpACE.DimAdaptiveCombi import DimAdaptiveCombi
        return DimAdaptiveCombi(a, b, op, norm=norm), None, f
    if st == "dimwise":
        from sparseSpACE.spatiallyAdaptiveSingleDimension2 import SpatiallyAdaptiveSingleDimensions2
        s = SpatiallyAdaptiveSingleDimensions2(a, b, norm=norm, operation=op, **opts)
        return s, EC.ErrorCalculatorSingleDimVolumeGuided(), f
    if st == "extend":
        from sparseSpACE.spatiallyAdaptiveExtendSplit import SpatiallyAdaptiveExtendScheme
        s = SpatiallyAdaptiveExtendScheme(a, b, operation=op, norm=norm, **opts)
        s._verif_gridspec = dict(cfg["grid"])
        return s, EC.ErrorCalculatorExtendSplit(), f
    if st == "cell":
        from sparseSpACE.spatiallyAdaptiveCell import SpatiallyAdaptiveCellScheme
        s = SpatiallyAdaptiveCellScheme(a, b, operation=op, norm=norm, **opts)
        return s, EC.ErrorCalculatorSurplusCell(), f
    raise ValueError(st)


def run_adaptive(s, eo, lmin, lmax, tol, max_evaluations, min_evaluations=1, reevaluate_at_end=False, solutions_storage=None):
    """performSpatiallyAdaptiv of the real instance; returns the tuple with result[3] copied."""
    with quiet():
        r = s.performSpatiallyAdaptiv(lmin, lmax, eo, tol, max_evaluations=max_evaluations, min_evaluations=min_evaluations,
                                      reevaluate_at_end=reevaluate_at_end, print_output=False, solutions_storage=solutions_storage)
    return _freeze(r)


def continue_adaptive(s, tol, max_evaluations, min_evaluations=1):
    with quiet():
        r = s.continue_adaptive_refinement(tol=tol, max_evaluations=max_evaluations, min_evaluations=min_evaluations)
    return _freeze(r)


class _Result(list):
    """Returned tuple with result[3] copied; .raw3 is the very object the library returned (never copied: report-stability checks)."""
    raw3 = None


def _freeze(r):
    raw3 = r[3]
    r = _Result(r)
    r.raw3 = raw3
    r[3] = np.array(r[3], dtype=float).copy()
    r[5], r[6], r[7] = list(r[5]), list(r[6]), list(r[7])
    return r


# =====================================================================================================
# instrumentation of one instance (in this process only)
# =====================================================================================================

def all_refinement_objects(s):
    ref = s.refinement
    if hasattr(ref, "refinementContainers"):
        return [o for c in ref.refinementContainers for o in c.get_objects()]
    return list(ref.get_objects())


def instrument(s, f):
    """Wrap evaluate_operation / refine of THIS instance.  Returns the log dict that is filled while running."""
    log = {"seq": [], "evals": []}
    orig_e, orig_r = s.evaluate_operation, s.refine

    def wrapped_evaluate():
        out = orig_e()
        log["seq"].append("E")
        log["evals"].append({
            "ret": (float(out[0]), float(out[1])),
            "result": np.array(s.operation.get_result(), dtype=float).copy(),
            "seen": len(f.seen),
            "npts": int(s.get_total_num_points()),
            "benefits": [getattr(o, "benefit", None) for o in all_refinement_objects(s)],
            "errors": [getattr(o, "error", None) for o in all_refinement_objects(s)],
        })
        return out

    def wrapped_refine():
        log["seq"].append("R")
        return orig_r()

    s.evaluate_operation = wrapped_evaluate
    s.refine = wrapped_refine
    return log


def uninstrument(s):
    for name in ("evaluate_operation", "refine"):
        if name in s.__dict__:
            del s.__dict__[name]


def clone(s):
    """Deep copy of an (un-instrumented) instance incl. operation, grid and integrand."""
    assert "evaluate_operation" not in s.__dict__
    return copy.deepcopy(s)


# =====================================================================================================
# independent recomputation
# =====================================================================================================

def quad(f, points, weights):
    """sum_i w_i f(p_i) with the oracle evaluation of f (vector valued)."""
    P = np.asarray(points, float).reshape(-1, len(f.dom_a))
    W = np.asarray(weights, float).reshape(-1)
    if P.shape[0] == 0:
        return np.zeros(f.output_length())
    assert P.shape[0] == W.shape[0], "points/weights length mismatch %d/%d" % (P.shape[0], W.shape[0])
    return W @ f.values(P)


def component_sum_plain(s, f):
    """standard / dimension-adaptive: sum over the scheme of coeff * (grid's own rule on [a,b] applied to f)."""
    total = np.zeros(f.output_length())
    parts = []
    for cg in s.scheme:
        s.grid.setCurrentArea(s.a, s.b, cg.levelvector)
        p, w = s.grid.get_points_and_weights()
        v = quad(f, p, w)
        parts.append((tuple(int(x) for x in cg.levelvector), float(cg.coefficient), v))
        total = total + cg.coefficient * v
    return total, parts


def component_sum_dimwise(s, f):
    """dimension-wise: every component grid of the current scheme on its own (points/weights of the grid object)."""
    total = np.zeros(f.output_length())
    for cg in s.scheme:
        with quiet():
            p, w = s.get_points_and_weights_component_grid(cg.levelvector)
        total = total + cg.coefficient * quad(f, p, w)
    return total


def component_sum_extend(s, f):
    """extend-split: per sub-area and component grid (level as coarsened by the strategy for that area,
    duplicate-avoidance bookkeeping of the area started afresh), the grid's own rule on the sub-area."""
    total = np.zeros(f.output_length())
    per_area = []
    spec = getattr(s, "_verif_gridspec", None)
    hierarchical = spec is not None and spec.get("type") in ("Lagrange",)
    if hierarchical:
        # hierarchical (surplus based) grids have no nodal weights: the independent component result is the integrate() of a FRESH grid object
        # of the same kind applied to a separate copy of the integrand
        fresh_grid = make_grid(spec, np.asarray(s.a, float), np.asarray(s.b, float))
        f_oracle = copy.deepcopy(f)
    for area in s.refinement.get_objects():
        area.levelvec_dict = {}
        v_area = np.zeros(f.output_length())
        for cg in s.scheme:
            lv, do_compute = s.coarsen_grid(cg.levelvector, area)
            if not do_compute:
                continue
            if hierarchical:
                with quiet():
                    v_area = v_area + cg.coefficient * np.asarray(fresh_grid.integrate(f_oracle, lv, area.start, area.end), float)
                continue
            s.grid.setCurrentArea(area.start, area.end, lv)
            p, w = s.grid.get_points_and_weights()
            v_area = v_area + cg.coefficient * quad(f, p, w)
        per_area.append(v_area)
        total = total + v_area
    return total, per_area


# =====================================================================================================
# structure snapshots
# =====================================================================================================

def scheme_sig(s):
    return sorted((tuple(int(x) for x in cg.levelvector), float(cg.coefficient)) for cg in s.scheme)


def structure_sig(s):
    """Refinement structure as a sorted, comparable value (floats exact: the same arithmetic must give the same numbers)."""
    ref = s.refinement
    if hasattr(ref, "refinementContainers"):  # dimension-wise
        return ("dimwise", tuple(int(x) for x in s.lmax),
                tuple(tuple((float(o.start), float(o.end), int(o.levels[0]), int(o.levels[1]), int(o.coarsening_level))
                            for o in c.get_objects()) for c in ref.refinementContainers))
    objs = []
    for o in ref.get_objects():
        if hasattr(o, "coarseningValue"):
            objs.append((tuple(float(x) for x in o.start), tuple(float(x) for x in o.end), int(o.coarseningValue), int(o.needExtendScheme)))
        else:
            objs.append((tuple(float(x) for x in o.start), tuple(float(x) for x in o.end), tuple(int(x) for x in o.levelvec), bool(o.active)))
    return ("areas", tuple(int(x) for x in s.lmax), tuple(sorted(objs)))


def pnorm_candidates(v, p):
    """The plain p-norm and the power-mean normalised p-norm of |v| (both are 'the deviation in norm p')."""
    v = np.abs(np.asarray(v, float))
    if p == "inf" or p == np.inf:
        return [float(v.max())]
    plain = float((v ** p).sum() ** (1.0 / p))
    return [plain, plain / len(v) ** (1.0 / p)]
