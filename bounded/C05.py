"""C05 bounded stand-in: the reported combined value is the combination of the component results.

Real objects of /repo (StandardCombi, DimAdaptiveCombi, SpatiallyAdaptiveSingleDimensions2, SpatiallyAdaptiveExtendScheme
version 0) are run to many different stops; at each stop the reported value is compared with an independent
recomputation: sum over the component grids of the current scheme of coefficient * sum_i w_i f(p_i), where points and
weights are the grid object's own rule for that component grid (per sub-area for extend-split) and f is evaluated by the
harness' own numpy formulas.
"""
import numpy as np

from bounded.api import close, quiet

BUDGET = {"quick": 60.0, "thorough": 840.0}
BOUND = ("d in {1,2,3} (standard), {2,3} (adaptive); domains [0,1]^d and one shifted box; integrands: Genz family (corner peak, product peak, "
         "oscillatory, discontinuous, C0, Gaussian) + seeded random smooth function, scalar and 2-3 component vector valued; "
         "standard: Trapezoidal (boundary on/off/modified basis), ClenshawCurtis, GaussLegendre, Leja, Simpson grids, 1<=lmin<=lmax<=4; "
         "dimension-adaptive: DimAdaptiveCombi.perform_combi(1,2,tol,max_points), tol in {1e-1,1e-2,1e-3}, Trapezoidal/ClenshawCurtis with boundary, <=8 refinements; "
         "dimension-wise: GlobalTrapezoidalGrid boundary on/off, versions {6,2,3,7,8}, rebalancing on/off, lmax in {2,3}; "
         "extend-split version 0: TrapezoidalGrid with boundary (some 2-D configurations: LagrangeGrid p=2, compared with a fresh grid's integrate()), refinements-before-extend in {1,2,3}, automatic_extend_split, split_single_dim; "
         "every stop index of runs with <=8 refinement steps reached freshly by max_evaluations (and some by tolerance), "
         "plus stops reached by continue_adaptive_refinement after an earlier stop; one stop-keep-continue history with solutions_storage per configuration "
         "(report stability) and a second/third perform_operation on the same StandardCombi; fixed anchor cases first (incl. extend-split on LagrangeGrid p=2 with "
         "automatic_extend_split); seeded pseudo-random selection")
BOUND += "; fault / magnitude additions: two fault histories on the dimension-wise strategy: the integrand raises once at its k-th call, k scanned over the run (about 15 positions), the run is continued if the fault surfaces"
RULE = BOUND + ("; a case is one (strategy configuration, integrand, stopping limits[, resumed from]) ; non-trivial = the scheme has more than one "
                "component grid and (adaptive) at least one refinement step happened before the stop")
CLAUSES = {
    "B.comp.sum": "reported combined value == sum over component grids of the current scheme (per sub-area for extend-split) of coefficient * "
                  "(the grid's own quadrature rule for that component grid applied to f by the harness); rel 1e-9 / abs 1e-11",
    "B.scratch.equal": "evaluate_final_combi() on a deep copy of the stopped instance returns the reported value (rel 1e-9 / abs 1e-11)",
    "B.reeval.unchanged": "the same run with reevaluate_at_end=True reports the same value (rel 1e-9 / abs 1e-11)",
    "B.report.stable": "a value handed to the caller stays what it was when it was reported: the array returned at a stop (kept WITHOUT copying) still equals its "
                       "copy after continue_adaptive_refinement to a later stop / after a second perform_operation; every entry of solutions_storage equals the "
                       "combined value observed after the evaluation with that point count (exact equality)",
    "B.nodal.rule": "standard and dimension-wise on nodal grids: sum_i w_i f(p_i) over get_points_and_weights() == reported value (rel 1e-9 / abs 1e-11)",
}

REL, ABS = 1e-9, 1e-11
S_PERFORM = "sparseSpACE.spatiallyAdaptiveBase:SpatiallyAdaptivBase.performSpatiallyAdaptiv"
S_CONTINUE = "sparseSpACE.spatiallyAdaptiveBase:SpatiallyAdaptivBase.continue_adaptive_refinement"
S_FINAL = "sparseSpACE.spatiallyAdaptiveBase:SpatiallyAdaptivBase.evaluate_final_combi"
S_STD = "sparseSpACE.StandardCombi:StandardCombi.perform_operation"
S_PW = "sparseSpACE.StandardCombi:StandardCombi.get_points_and_weights"
S_DIMAD = "sparseSpACE.DimAdaptiveCombi:DimAdaptiveCombi.perform_combi"


class _StopScout(Exception):
    pass


def _dc():
    from bounded import _drivers_common as dc
    return dc


def eq(x, y):
    return close(x, y, rel=REL, abs_=ABS)


def tag_vs(res, other):
    """Failure pattern of a re-evaluation: exactly twice the reported value, or something else."""
    return "doubles" if close(other, 2 * np.asarray(res), rel=1e-9, abs_=1e-11) else "differs"


# ---------------------------------------------------------------------------------------------------------
# standard / dimension-adaptive
# ---------------------------------------------------------------------------------------------------------

def check_standard(ctx, case):
    dc = _dc()
    s, _, f = dc.build(case["cfg"], case["comps"], None)
    res = None
    with ctx.guard("B.comp.sum", S_STD, "standard-raises"):
        with quiet():
            scheme, _, res = s.perform_operation(case["lmin"], case["lmax"])
        res = np.array(res, dtype=float).copy()
    if res is None:
        return
    total, _ = dc.component_sum_plain(dc.clone(s), f)
    ctx.check("B.comp.sum", eq(res, total), S_STD, "standard", "reported %s, component sum %s" % (res, total))
    with ctx.guard("B.nodal.rule", S_PW, "standard-raises"):
        P, W = dc.clone(s).get_points_and_weights()
        q = dc.quad(f, P, W)
        ctx.check("B.nodal.rule", eq(res, q), S_PW, "standard", "reported %s, sum w f(p) %s" % (res, q))


def check_dimadapt(ctx, case):
    dc = _dc()
    s, _, f = dc.build(case["cfg"], case["comps"], case["ref"])
    res = None
    with ctx.guard("B.comp.sum", S_DIMAD, "dimadapt-raises"):
        with quiet():
            out = s.perform_combi(1, 2, case["tol"], max_number_of_points=case["maxp"])
        res = np.array(out[2], dtype=float).copy().reshape(-1)
    if res is None:
        return
    total, _ = dc.component_sum_plain(dc.clone(s), f)
    ctx.check("B.comp.sum", eq(res, total), S_DIMAD, "dimadapt", "reported %s, component sum %s (scheme of %d grids)" % (res, total, len(s.scheme)))


# ---------------------------------------------------------------------------------------------------------
# spatially adaptive strategies
# ---------------------------------------------------------------------------------------------------------

def component_sum(dc, s, f, strategy):
    c = dc.clone(s)
    if strategy == "dimwise":
        return dc.component_sum_dimwise(c, f)
    return dc.component_sum_extend(c, f)[0]


def scout(case_base, max_refinements=8):
    """Uninterrupted run (tol=-1, no limit) aborted by the harness after max_refinements refinement steps.
    Returns the per-evaluation point counts and errors."""
    dc = _dc()
    s, eo, f = dc.build(case_base["cfg"], case_base["comps"], case_base.get("ref"))
    log = dc.instrument(s, f)
    orig_refine = s.refine

    def limited_refine():
        if log["seq"].count("R") >= max_refinements:
            raise _StopScout()
        return orig_refine()

    s.refine = limited_refine
    try:
        dc.run_adaptive(s, eo, case_base["lmin"], case_base["lmax"], -1.0, None)
    except _StopScout:
        pass
    return [e["npts"] for e in log["evals"]], [e["ret"][0] for e in log["evals"]]


def check_adaptive(ctx, case):
    """One stop of an adaptive strategy: fresh run to the stop described by the case, or resumed run."""
    dc = _dc()
    cfg, comps, st = case["cfg"], case["comps"], case["cfg"]["strategy"]
    s, eo, f = dc.build(cfg, comps, case.get("ref"))
    resumed = case.get("resume_from") is not None
    r = None
    site = S_CONTINUE if resumed else S_PERFORM
    with ctx.guard("B.comp.sum", site, st + "-raises"):
        if resumed:
            dc.run_adaptive(s, eo, case["lmin"], case["lmax"], case["tol"], case["resume_from"], case.get("min", 1))
            r = dc.continue_adaptive(s, case["tol"], case["max"], case.get("min", 1))
        else:
            r = dc.run_adaptive(s, eo, case["lmin"], case["lmax"], case["tol"], case["max"], case.get("min", 1))
    if r is None:
        return
    res = r[3]
    total = None
    with ctx.guard("B.comp.sum", site, st + "-oracle-raises"):
        total = component_sum(dc, s, f, st)
    if total is not None:
        wc = ("extend-split-resume" if st == "extend" else st + "-resume") if resumed else st + "-fresh-stop"
        ctx.check("B.comp.sum", eq(res, total), site, wc,
                  "reported %s but sum over component grids%s gives %s (evaluations %d, scheme %d grids)"
                  % (res, " and sub-areas" if st == "extend" else "", total, len(r[5]), len(s.scheme)))
    if resumed:
        return
    # from scratch on a deep copy
    with ctx.guard("B.scratch.equal", S_FINAL, st + "-final-combi-raises"):
        c = dc.clone(s)
        with quiet():
            v, _ = c.evaluate_final_combi()
        v = np.array(v, dtype=float)
        ok = eq(res, v)
        ctx.check("B.scratch.equal", ok, S_FINAL, "final-combi-" + ("ok" if ok else tag_vs(res, v)),
                  "reported %s, evaluate_final_combi() on a deep copy %s" % (res, v))
    # same run with reevaluate_at_end
    with ctx.guard("B.reeval.unchanged", S_CONTINUE, st + "-reevaluate-raises"):
        s2, eo2, _ = dc.build(cfg, comps, case.get("ref"))
        r2 = dc.run_adaptive(s2, eo2, case["lmin"], case["lmax"], case["tol"], case["max"], case.get("min", 1), reevaluate_at_end=True)
        ok = eq(res, r2[3])
        ctx.check("B.reeval.unchanged", ok, S_CONTINUE, "reevaluate-at-end-" + ("ok" if ok else tag_vs(res, r2[3])),
                  "reported %s without, %s with reevaluate_at_end=True" % (res, r2[3]))
    if st == "dimwise":
        with ctx.guard("B.nodal.rule", S_PW, "dimwise-raises"):
            c = dc.clone(s)
            with quiet():
                P, W = c.get_points_and_weights()
                P2, W2 = c.get_points_and_weights()      # idempotence of the query
            ctx.check("B.nodal.rule", np.array_equal(np.asarray(W, float), np.asarray(W2, float)) and np.array_equal(np.asarray(P, float), np.asarray(P2, float)),
                      S_PW, "dimwise-second-query", "get_points_and_weights() asked twice on one instance gives different answers")
            q = dc.quad(f, P, W)
            ctx.check("B.nodal.rule", eq(res, q), S_PW, "dimwise", "reported %s, sum w f(p) over get_points_and_weights() %s" % (res, q))


def check_fault(ctx, case):
    """History with a fault at a particular point: the user's model raises once, at its k-th evaluation, somewhere inside the run (k scanned over the whole run).
    Either the library lets the exception through -- then the caller continues the SAME instance with continue_adaptive_refinement -- or it returns a value;
    whatever value is finally reported must be the coefficient-weighted sum over the component grids and the nodal rule of the reached structure
    (missed seed C05_9: a silent retry of a half-evaluated component grid counted it twice)."""
    dc = _dc()
    cfg, comps, st = case["cfg"], case["comps"], case["cfg"]["strategy"]
    s, eo, f = dc.build(cfg, comps, case.get("ref"))
    cnt = dc.arm_fault(f, 0)
    with ctx.guard("B.comp.sum", S_PERFORM, st + "-raises"):
        dc.run_adaptive(s, eo, case["lmin"], case["lmax"], case["tol"], case["max"], case.get("min", 1))
    total_calls = cnt["n"]
    if total_calls < 2:
        return
    ks = sorted(set([1, 2, total_calls] + [max(1, (total_calls * j) // case.get("positions", 10)) for j in range(1, case.get("positions", 10))]
                    + [total_calls - j for j in range(1, 6) if total_calls - j >= 1]))
    for k in ks:
        s, eo, f = dc.build(cfg, comps, case.get("ref"))
        cnt = dc.arm_fault(f, k)
        r = None
        surfaced = False
        try:
            r = dc.run_adaptive(s, eo, case["lmin"], case["lmax"], case["tol"], case["max"], case.get("min", 1))
        except dc.ModelFault:
            surfaced = True
        except Exception as e:  # noqa
            ctx.check("B.comp.sum", False, S_PERFORM, st + "-fault-other-exception", "model fault at evaluation %d of %d turned into %s: %s" % (k, total_calls, type(e).__name__, e))
            continue
        site = S_PERFORM
        if surfaced:
            site = S_CONTINUE
            with ctx.guard("B.comp.sum", S_CONTINUE, st + "-continue-after-fault-raises"):
                r = dc.continue_adaptive(s, case["tol"], case["max"], case.get("min", 1))
            if r is None:
                continue
        res = r[3]
        with ctx.guard("B.comp.sum", site, st + "-oracle-raises"):
            total = component_sum(dc, s, f, st)
            ctx.check("B.comp.sum", eq(res, total), site, st + ("-continued-after-model-fault" if surfaced else "-model-fault-not-surfaced"),
                      "model fault at evaluation %d of %d (%s): reported %s but the sum over the component grids gives %s"
                      % (k, total_calls, "raised to the caller, run continued" if surfaced else "not raised to the caller", res, total))
        if st == "dimwise":
            with ctx.guard("B.nodal.rule", S_PW, "dimwise-raises"):
                with quiet():
                    P, W = s.get_points_and_weights()
                q = dc.quad(f, P, W)
                ctx.check("B.nodal.rule", eq(res, q), S_PW, "dimwise" + ("-continued-after-model-fault" if surfaced else "-model-fault-not-surfaced"),
                          "model fault at evaluation %d of %d: reported %s, sum w f(p) over get_points_and_weights() %s" % (k, total_calls, res, q))


def check_stability(ctx, case):
    """History clause: run to a first stop with solutions_storage, keep the returned array object, continue to a later stop."""
    dc = _dc()
    cfg, comps, st = case["cfg"], case["comps"], case["cfg"]["strategy"]
    s, eo, f = dc.build(cfg, comps, case.get("ref"))
    log = dc.instrument(s, f)
    storage = {}
    r1 = r2 = None
    with ctx.guard("B.report.stable", S_PERFORM, st + "-raises"):
        r1 = dc.run_adaptive(s, eo, case["lmin"], case["lmax"], case["tol"], case["first"], case.get("min", 1), solutions_storage=storage)
    if r1 is None:
        return
    kept, copy1, n_first = r1.raw3, r1[3].copy(), len(log["evals"])
    if st == "dimwise":
        # the publicly exposed rule asked on the LIVE instance at this stop (and again after the continuation below): a query must not freeze what a later query returns
        with ctx.guard("B.nodal.rule", S_PW, "dimwise-live-raises"):
            with quiet():
                P, W = s.get_points_and_weights()
            q = dc.quad(f, P, W)
            ctx.check("B.nodal.rule", eq(copy1, q), S_PW, "dimwise-live-first-stop", "reported %s, sum w f(p) over get_points_and_weights() of the live instance %s" % (copy1, q))
    stored_first = {int(k): np.array(v, dtype=float).copy() for k, v in storage.items()}
    observed = {}
    for ev in log["evals"]:
        observed[ev["npts"]] = ev["result"]          # last evaluation with that point count (what the dict keeps)
    bad = [(k, v, observed.get(k)) for k, v in stored_first.items() if k not in observed or not np.array_equal(v, observed[k])]
    ctx.check("B.report.stable", not bad and len(stored_first) == len(observed), S_PERFORM, st + "-solutions-storage",
              "solutions_storage after the run (points, stored, observed after that evaluation): %s; %d entries for %d distinct point counts"
              % (bad[:3], len(stored_first), len(observed)))
    with ctx.guard("B.report.stable", S_CONTINUE, st + "-raises"):
        r2 = dc.continue_adaptive(s, case["tol"], case["max"], case.get("min", 1))
    if r2 is None:
        return
    if st == "dimwise":
        with ctx.guard("B.nodal.rule", S_PW, "dimwise-live-raises"):
            with quiet():
                P, W = s.get_points_and_weights()
            q = dc.quad(f, P, W)
            ctx.check("B.nodal.rule", eq(r2[3], q), S_PW, "dimwise-live-after-continue",
                      "after continuing the run: reported %s, sum w f(p) over get_points_and_weights() of the same instance (asked before at the first stop) %s" % (r2[3], q))
    ok = np.array_equal(np.asarray(kept, dtype=float), copy1)
    ctx.check("B.report.stable", ok, S_CONTINUE, st + "-live-result",
              "array returned at the first stop was %s, after continuing (%d more evaluations) the same object reads %s"
              % (copy1, len(log["evals"]) - n_first, np.asarray(kept, dtype=float)))
    # entries written before the continuation must not have changed either
    bad = [(k, v, np.array(storage[k], dtype=float)) for k, v in stored_first.items()
           if k in storage and k not in [e["npts"] for e in log["evals"][n_first:]] and not np.array_equal(v, np.array(storage[k], dtype=float))]
    ctx.check("B.report.stable", not bad, S_CONTINUE, st + "-solutions-storage-after-continue",
              "solutions_storage entries written before the continuation changed (points, before, after): %s" % bad[:3])


def check_standard_stability(ctx, case):
    dc = _dc()
    s, _, f = dc.build(case["cfg"], case["comps"], None)
    with ctx.guard("B.report.stable", S_STD, "standard-raises"):
        with quiet():
            _, _, kept = s.perform_operation(case["lmin"], case["lmax"])
            copy1 = np.array(kept, dtype=float).copy()
            s.perform_operation(case["lmin"], case["lmax"] + 1)
        ctx.check("B.report.stable", np.array_equal(np.asarray(kept, float), copy1), S_STD, "standard-live-result",
                  "result of the first perform_operation %s reads %s after a second one on the same instance" % (copy1, np.asarray(kept, float)))
        with quiet():
            _, _, again = s.perform_operation(case["lmin"], case["lmax"])
        ctx.check("B.report.stable", eq(again, copy1), S_STD, "standard-rerun", "same levels again on the same instance: %s vs %s" % (np.asarray(again, float), copy1))


# ---------------------------------------------------------------------------------------------------------
# generation
# ---------------------------------------------------------------------------------------------------------

def pick_comps(ctx, d, vector):
    dc = _dc()
    n = ctx.rng.choice([2, 3]) if vector else 1
    return [dc.random_genz(ctx.rng, d) for _ in range(n)]


def box(ctx, d, shifted):
    if shifted:
        return [-0.5] * d, [1.5] * d
    return [0.0] * d, [1.0] * d


STD_GRIDS = [{"type": "Trapezoidal", "boundary": True}, {"type": "Trapezoidal", "boundary": False},
             {"type": "Trapezoidal", "boundary": False, "modified": True}, {"type": "ClenshawCurtis", "boundary": True},
             {"type": "GaussLegendre"}, {"type": "Leja", "boundary": True}, {"type": "Simpson", "boundary": True}]


def gen_standard(ctx):
    quick = ctx.quick()
    for d in (1, 2, 3):
        for gi, g in enumerate(STD_GRIDS):
            levels = [(1, 2), (1, 3), (2, 3)] if quick else [(1, 2), (1, 3), (2, 3), (1, 4), (2, 4), (3, 4)]
            for (lmin, lmax) in levels:
                if d == 1 and lmin != 1:
                    continue
                for vector in ((gi + lmax) % 2 == 0,) if quick else (False, True):
                    a, b = box(ctx, d, (gi + lmin) % 2 == 1)
                    yield {"kind": "standard", "cfg": {"strategy": "standard", "a": a, "b": b, "grid": g},
                           "comps": pick_comps(ctx, d, vector), "lmin": lmin, "lmax": lmax, "stability": lmax <= 3 and d <= 2}


def gen_dimadapt(ctx):
    dc = _dc()
    grids = [{"type": "Trapezoidal", "boundary": True}, {"type": "ClenshawCurtis", "boundary": True}]
    reps = 1 if ctx.quick() else 4
    for _ in range(reps):
        for d in (2, 3):
            for g in grids:
                for tol in (1e-1, 1e-2, 1e-3):
                    a, b = box(ctx, d, False)
                    comps = pick_comps(ctx, d, ctx.rng.random() < 0.4)
                    ref = dc.gauss_reference(comps, np.array(a), np.array(b))
                    if np.any(np.abs(ref) < 1e-6):
                        continue  # the driver divides by the reference; zero references are not valid input for it
                    maxp = ctx.rng.choice([40, 150, 600]) if d == 2 else ctx.rng.choice([200, 800])
                    yield {"kind": "dimadapt", "cfg": {"strategy": "dimadapt", "a": a, "b": b, "grid": g}, "comps": comps,
                           "ref": [float(x) for x in ref], "tol": tol, "maxp": maxp}


def adaptive_configs(ctx):
    """(cfg, lmin, lmax) of the spatially adaptive strategies, seeded selection."""
    rng = ctx.rng
    out = []
    n_dw, n_es = (8, 9) if ctx.quick() else (40, 42)
    for i in range(n_dw):
        d = 2 if i % 3 != 2 else 3
        a, b = box(ctx, d, i % 4 == 3)
        opts = {"version": [6, 2, 3, 7, 8][i % 5], "rebalancing": rng.random() < 0.7}
        if rng.random() < 0.3:
            opts["margin"] = rng.choice([0.5, 0.9, 0.99])
        g = {"type": "GlobalTrapezoidal", "boundary": rng.random() < 0.6}
        lmax = 2 if (d == 3 or rng.random() < 0.5) else 3
        out.append(({"strategy": "dimwise", "a": a, "b": b, "grid": g, "norm": rng.choice([1, 2, "inf"]), "opts": opts}, 1, lmax))
    for i in range(n_es):
        d = 2 if i % 3 != 2 else 3
        a, b = box(ctx, d, i % 4 == 1)
        opts = {"version": 0, "number_of_refinements_before_extend": [1, 2, 3][(i + i // 3) % 3]}
        mode = i % 4
        if mode == 1:
            opts["automatic_extend_split"] = True
        elif mode == 2:
            opts["split_single_dim"] = True
        g = {"type": "Trapezoidal", "boundary": True}
        if d == 2 and ((mode == 1 and i % 8 == 1) or (mode == 0 and i % 8 == 4)):
            g = {"type": "Lagrange", "boundary": True, "p": 2}     # high-order hierarchical grid: the parent-estimation branches of the error estimate are live
        lmax = 2 if (d == 3 or rng.random() < 0.6) else 3
        out.append(({"strategy": "extend", "a": a, "b": b, "grid": g, "norm": rng.choice([1, 2, "inf"]), "opts": opts}, 1, lmax))
    rng.shuffle(out)
    return out


def gen_adaptive(ctx):
    dc = _dc()
    for cfg, lmin, lmax in adaptive_configs(ctx):
        d = len(cfg["a"])
        comps = pick_comps(ctx, d, ctx.rng.random() < 0.5)
        ref = dc.gauss_reference(comps, np.array(cfg["a"]), np.array(cfg["b"]))
        use_ref = bool(np.all(np.abs(ref) > 1e-6)) and ctx.rng.random() < 0.5
        base = {"kind": "adaptive", "cfg": cfg, "comps": comps, "lmin": lmin, "lmax": lmax,
                "ref": [float(x) for x in ref] if use_ref else None}
        ctx.case(dict(base, kind="scout"), nontrivial=False)
        npts = None
        with ctx.guard("B.comp.sum", S_PERFORM, cfg["strategy"] + "-raises"):
            npts, errs = scout(base, max_refinements=8 if d == 2 else 5)
        if not npts:
            continue
        stops = [j for j in range(len(npts)) if j == 0 or npts[j] > max(npts[:j])]
        if ctx.quick():
            keep = sorted(set([stops[0], stops[len(stops) // 2], stops[-1]] + ([ctx.rng.choice(stops)] if stops else [])))
        else:
            keep = stops
        for j in keep:
            yield dict(base, tol=-1.0, max=npts[j] - 1, min=1, stop_index=j)
        # a stop decided by the tolerance (needs a reference) with a minimum number of points
        if use_ref and len(npts) > 2:
            j = ctx.rng.randrange(1, len(npts))
            yield dict(base, tol=float(errs[j]) * (1 + 1e-6) + 1e-300, max=npts[-1] - 1, min=npts[max(j - 1, 0)], stop_index=None)
        # stops reached by continuing an earlier stop
        last = stops[-1]
        froms = [j for j in stops if j < last]
        if ctx.quick():
            froms = froms[:1] + froms[-1:] if len(froms) > 1 else froms
        for j in froms:
            yield dict(base, tol=-1.0, resume_from=npts[j] - 1, max=npts[last] - 1, min=1, stop_index=last)
        # report stability: stop early (with solutions_storage), keep the returned array, continue to the last stop
        if froms:
            j = froms[len(froms) // 2]
            yield dict(base, kind="stability", tol=-1.0, first=npts[j] - 1, max=npts[last] - 1, min=1, stop_index=last)


def dispatch(ctx, case):
    if case["kind"] == "scout":
        with ctx.guard("B.comp.sum", S_PERFORM, case["cfg"]["strategy"] + "-raises"):
            scout(case, max_refinements=8 if len(case["cfg"]["a"]) == 2 else 5)
    elif case["kind"] == "standard":
        check_standard(ctx, case)
        if case.get("stability"):
            check_standard_stability(ctx, case)
    elif case["kind"] == "stability":
        check_stability(ctx, case)
    elif case["kind"] == "fault":
        check_fault(ctx, case)
    elif case["kind"] == "dimadapt":
        check_dimadapt(ctx, case)
    else:
        check_adaptive(ctx, case)


def nontrivial(case):
    if case["kind"] == "standard":
        return case["lmax"] > case["lmin"] and len(case["cfg"]["a"]) > 1
    if case["kind"] == "dimadapt":
        return True
    return case.get("stop_index") is None or case["stop_index"] > 0


def anchor_cases():
    """Fixed, seed independent witnesses of the three known findings; run first so that every finding key appears in every run."""
    comps = [["corner", [1.0, 3.0]]]
    dw = {"strategy": "dimwise", "a": [0.0, 0.0], "b": [1.0, 1.0], "grid": {"type": "GlobalTrapezoidal", "boundary": True}, "norm": "inf", "opts": {"version": 6}}
    es = {"strategy": "extend", "a": [0.0, 0.0], "b": [1.0, 1.0], "grid": {"type": "Trapezoidal", "boundary": True}, "norm": "inf",
          "opts": {"version": 0, "number_of_refinements_before_extend": 2}}
    lag = {"strategy": "extend", "a": [0.0, 0.0], "b": [1.0, 1.0], "grid": {"type": "Lagrange", "boundary": True, "p": 2}, "norm": "inf",
           "opts": {"version": 0, "automatic_extend_split": True}}
    return [{"kind": "stability", "cfg": dw, "comps": comps, "lmin": 1, "lmax": 2, "ref": None, "tol": -1.0, "first": 30, "max": 90, "min": 1, "stop_index": 6},
            {"kind": "stability", "cfg": es, "comps": comps, "lmin": 1, "lmax": 2, "ref": None, "tol": -1.0, "first": 30, "max": 90, "min": 1, "stop_index": 5},
            # high-order grid + automatic extend/split decision: the parent-estimation branches of the error estimate run before areas are replaced
            {"kind": "adaptive", "cfg": lag, "comps": [["corner", [3.0, 1.0]]], "lmin": 1, "lmax": 2, "ref": None, "tol": -1.0, "max": 250, "min": 1, "stop_index": 5},
            {"kind": "adaptive", "cfg": dw, "comps": comps, "lmin": 1, "lmax": 2, "ref": None, "tol": -1.0, "max": 60, "min": 1, "stop_index": 4},
            {"kind": "fault", "cfg": dw, "comps": comps, "lmin": 1, "lmax": 2, "ref": None, "tol": -1.0, "max": 40, "min": 1, "stop_index": 3, "positions": 10},
            {"kind": "fault", "cfg": dict(dw, opts={"version": 6, "rebalancing": False}), "comps": [["gauss", [30.0, 30.0], [0.3, 0.6]]], "lmin": 1, "lmax": 2, "ref": None, "tol": -1.0,
             "max": 12, "min": 1, "stop_index": 0, "positions": 8},
            {"kind": "adaptive", "cfg": es, "comps": comps, "lmin": 1, "lmax": 2, "ref": None, "tol": -1.0, "max": 60, "min": 1, "stop_index": 3},
            {"kind": "adaptive", "cfg": es, "comps": comps, "lmin": 1, "lmax": 2, "ref": None, "tol": -1.0, "resume_from": 20, "max": 120, "min": 1, "stop_index": 7}]


def run(ctx):
    ctx.exhaustive = False
    for case in anchor_cases():
        ctx.case(case, nontrivial=True)
        dispatch(ctx, case)
    for case in gen_standard(ctx):
        ctx.case(case, nontrivial=nontrivial(case))
        dispatch(ctx, case)
    for case in gen_dimadapt(ctx):
        if ctx.out_of_time(0.25):
            break
        ctx.case(case, nontrivial=True)
        dispatch(ctx, case)
    rounds = 0
    while True:
        for case in gen_adaptive(ctx):
            if ctx.out_of_time(0.9):
                break
            ctx.case(case, nontrivial=nontrivial(case))
            dispatch(ctx, case)
        rounds += 1
        if ctx.quick() or ctx.out_of_time(0.8) or rounds >= 3:
            break


def replay(ctx, case):
    dispatch(ctx, case)
