"""native replay for C16 counter-models: analytic Gram entry of two hat functions vs numerical integration of their product"""
from bounded.replay_models import handler


@handler("C16.rvalue")
def c16_rvalue(inp, obligation):
    import numpy as np
    from scipy import integrate
    from sparseSpACE.GridOperation import DensityEstimation
    dim = int(inp["dim"])
    pi, pj = [float(x) for x in inp["point_i"]], [float(x) for x in inp["point_j"]]
    di, dj = [tuple(float(y) for y in x) for x in inp["domain_i"]], [tuple(float(y) for y in x) for x in inp["domain_j"]]
    op = object.__new__(DensityEstimation)
    op.dim = dim

    def hat(x, p, lo, hi):
        if x < lo or x > hi:
            return 0.0
        if x <= p:
            return 1.0 if p == lo else (x - lo) / (p - lo)
        return 1.0 if p == hi else (hi - x) / (hi - p)
    ref = 1.0
    for k in range(dim):
        lo, hi = max(di[k][0], dj[k][0]), min(di[k][1], dj[k][1])
        if lo >= hi:
            ref = 0.0
            break
        pts = sorted({lo, hi, min(max(pi[k], lo), hi), min(max(pj[k], lo), hi)})
        val = 0.0
        for a, b in zip(pts, pts[1:]):
            val += integrate.quad(lambda x: hat(x, pi[k], *di[k]) * hat(x, pj[k], *dj[k]), a, b, epsabs=1e-13, epsrel=1e-13)[0]
        ref *= val
    got = DensityEstimation.calculate_R_value_analytically(op, pi, di, pj, dj)
    scale = max(abs(ref), 1e-12)
    bad = [] if abs(got - ref) <= 1e-8 * scale + 1e-12 else ["calculate_R_value_analytically = %r, integral of the product of the hats = %r" % (got, ref)]
    return bool(bad), {"point_i": pi, "domain_i": di, "point_j": pj, "domain_j": dj, "violations": bad}
