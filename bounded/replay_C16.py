"""native replay for C16 counter-models: analytic Gram entry of two hat functions vs numerical integration of their product"""
from bounded.replay_models import handler


@handler("C16.rvalue")
def c16_rvalue(inp, obligation):
    import numpy as np
    from scipy import integrate
    from sparseSpACE.GridOperation import DensityEstimation
    dim = int(inp["dim"])
    pi, pj = [float(x) for x in inp["point_i"]], [float(x) for x in inp["point_j"]]
    di, dj = [tuple(float(y) for y in x) for x in inp["domain_i"]], [tuple(float(y) for y in x) for x in inp["domain_j"]]
    op = object.__new__(DensityEstimation)
    op.dim = dim

    def hat(x, p, lo, hi):
        if x < lo or x > hi:
            return 0.0
        if x <= p:
            return 1.0 if p == lo else (x - lo) / (p - lo)
        return 1.0 if p == hi else (hi - x) / (hi - p)
    ref = 1.0
    for k in range(dim):
        lo, hi = max(di[k][0], dj[k][0]), min(di[k][1], dj[k][1])
        if lo >= hi:
            ref = 0.0
            break
        pts = sorted({lo, hi, min(max(pi[k], lo), hi), min(max(pj[k], lo), hi)})
        val = 0.0
        for a, b in zip(pts, pts[1:]):
            val += integrate.quad(lambda x: hat(x, pi[k], *di[k]) * hat(x, pj[k], *dj[k]), a, b, epsabs=1e-13, epsrel=1e-13)[0]
        ref *= val
    got = DensityEstimation.calculate_R_value_analytically(op, pi, di, pj, dj)
    scale = max(abs(ref), 1e-12)
    bad = [] if abs(got - ref) <= 1e-8 * scale + 1e-12 else ["calculate_R_value_analytically = %r, integral of the product of the hats = %r" % (got, ref)]
    return bool(bad), {"point_i": pi, "domain_i": di, "point_j": pj, "domain_j": dj, "violations": bad}


@handler("C16.masslumped")
def c16_masslumped(inp, obligation):
    """mass-lumped system matrix value of the real build_R_matrix against the Gram diagonal of the uniform hat basis (product of 2 h_k / 3, h_k = 2^-l_k)"""
    from sparseSpACE.GridOperation import DensityEstimation
    lv = [max(1, min(int(l), 12)) for l in inp["levelvec"]]
    bad = []
    for levels in [lv] + [[1] * len(lv), list(range(1, len(lv) + 1)), [3] * len(lv)]:
        op = object.__new__(DensityEstimation)
        op.masslumping, op.dim = True, len(levels)
        got = float(DensityEstimation.build_R_matrix(op, list(levels)))
        want = 1.0
        for l in levels:
            want *= 2.0 * 2.0 ** (-l) / 3.0
        if abs(got - want) > 1e-12 * want:
            bad.append("level vector %r: mass-lumped value %r, Gram diagonal %r" % (levels, got, want))
    return bool(bad), {"violations": bad}


@handler("C16.r_matrix")
def c16_r_matrix(inp, obligation):
    """the real build_R_matrix (no mass lumping) on real uniform component grids without boundary points: every entry against the Gram entry of the two hats
    (product of the 1-D mass factors 2h/3, h/6, 0) plus lambda on the diagonal"""
    import itertools
    import numpy as np
    from sparseSpACE.GridOperation import DensityEstimation
    from sparseSpACE.Grid import TrapezoidalGrid
    dim = int(inp["dim"])
    lvs = [[max(1, min(int(l), 3)) for l in inp["levelvec"]]] + ([[2], [3]] if dim == 1 else [[1, 2], [2, 1], [2, 3], [3, 2], [2, 2]])
    lam = 0.125
    bad = []
    for lv in lvs:
        op = object.__new__(DensityEstimation)
        op.grid = TrapezoidalGrid(a=np.zeros(dim), b=np.ones(dim), boundary=False)
        op.grid.setCurrentArea(np.zeros(dim), np.ones(dim), list(lv))
        op.masslumping, op.lambd, op.debug, op.dim = False, lam, False, dim
        op.log_util = type("L", (), {"log_debug": lambda *a, **k: None, "log_info": lambda *a, **k: None})()
        Rm = np.asarray(DensityEstimation.build_R_matrix(op, list(lv)), dtype=float)
        idx = list(itertools.product(*[range(1, 2 ** l) for l in lv]))
        if Rm.shape != (len(idx), len(idx)):
            bad.append("level vector %r: matrix of shape %r for %d grid points" % (lv, Rm.shape, len(idx)))
            continue

        def m1(l, p, q):
            h = 2.0 ** (-l)
            return 2.0 * h / 3.0 if p == q else (h / 6.0 if abs(p - q) == 1 else 0.0)
        for i, p in enumerate(idx):
            for j, q in enumerate(idx):
                want = float(np.prod([m1(lv[m], p[m], q[m]) for m in range(dim)])) + (lam if i == j else 0.0)
                if abs(Rm[i, j] - want) > 1e-12 * max(1.0, abs(want)):
                    bad.append("level vector %r, hats %r and %r: R entry %r, Gram entry (+lambda on the diagonal) %r" % (lv, p, q, float(Rm[i, j]), want))
                    break
            if bad:
                break
        if bad:
            break
    return bool(bad), {"violations": bad[:3]}
