"""native replay handlers for C20 counter-models"""
from bounded.replay_models import handler


@handler("C20.c_matrix")
def c20_c_matrix(inp, obligation):
    """the real build_C_matrix on a real uniform component grid (boundary points off) for the counter-model's level vector (levels clamped to <= 3) and a few
    anisotropic ones: every entry against the gradient Gram entry computed from the 1-D stiffness / mass factors of the hats"""
    import itertools
    import numpy as np
    from sparseSpACE.GridOperation import Regression
    from sparseSpACE.Grid import TrapezoidalGrid
    dim = int(inp["dim"])
    lvs = [[max(1, min(int(l), 3)) for l in inp["levelvec"]]] + ([[2], [3]] if dim == 1 else [[1, 2], [2, 1], [2, 3], [3, 2], [2, 2]])
    bad = []
    for lv in lvs:
        op = object.__new__(Regression)
        op.grid = TrapezoidalGrid(a=np.zeros(dim), b=np.ones(dim), boundary=False)
        op.grid.setCurrentArea(np.zeros(dim), np.ones(dim), list(lv))
        op.log_util = type("L", (), {"log_debug": lambda *a, **k: None, "log_info": lambda *a, **k: None})()
        C = np.asarray(Regression.build_C_matrix(op, list(lv)), dtype=float)
        idx = list(itertools.product(*[range(1, 2 ** l) for l in lv]))
        if C.shape != (len(idx), len(idx)):
            bad.append("level vector %r: matrix of shape %r for %d grid points" % (lv, C.shape, len(idx)))
            continue

        def f1(kind, l, p, q):
            h = 2.0 ** (-l)
            if p == q:
                return 2.0 / h if kind == "s" else 2.0 * h / 3.0
            if abs(p - q) == 1:
                return -1.0 / h if kind == "s" else h / 6.0
            return 0.0
        for i, p in enumerate(idx):
            for j, q in enumerate(idx):
                want = sum(np.prod([f1("s" if m == k else "m", lv[m], p[m], q[m]) for m in range(dim)]) for k in range(dim))
                if abs(C[i, j] - want) > 1e-9 * max(1.0, abs(want)):
                    bad.append("level vector %r, hats %r and %r: C entry %r, gradient Gram entry %r" % (lv, p, q, float(C[i, j]), float(want)))
                    break
            if bad:
                break
        if bad:
            break
    return bool(bad), {"violations": bad[:3]}
