"""native replay for C13 driver counter-models: the real continue_adaptive_refinement is run on a stub strategy whose evaluation /
refinement steps are scripted; a focused exhaustive search over short scripts around the limits of the counter-model."""
import itertools
from bounded.replay_models import handler


def run_script(script, tol, min_ev, max_ev, tolerance_prev=None):
    """script: list of (error, npts) per evaluation; the last entry repeats forever.  Returns list of violations.
    tolerance_prev: what an earlier call left in the object's `tolerance` attribute (the limits of a call are its arguments)."""
    import numpy as np
    from sparseSpACE.spatiallyAdaptiveBase import SpatiallyAdaptivBase
    from sparseSpACE.Utils import LogUtility

    class Op:
        def get_result(self):
            return np.array([0.0])

    class Ref:
        evaluationstotal = 0

    class Stub(SpatiallyAdaptivBase):
        def __init__(self):
            self.single_step = False
            self.last_point_count = None
            self.log_util = LogUtility()
            self.error_array, self.surplus_error_array, self.num_point_array = [], [], []
            self.interpolation_error_arrayL2, self.interpolation_error_arrayMax = [], []
            self.evaluation_points = None
            self.print_output = False
            self.do_plot = False
            self.solutions_storage = None
            self.test_scheme = False
            self.reevaluate_at_end = False
            self.refinements = 0
            self.operation, self.refinement = Op(), Ref()
            self.scheme, self.lmax = [], [1]
            self.tolerance = (tol + 1.0) if tolerance_prev is None else tolerance_prev
            self.E = 0
            self.R = 0
            self.events = []

        def cur(self):
            return script[min(self.E - 1, len(script) - 1)]

        def evaluate_operation(self):
            self.E += 1
            self.events.append("E")
            if self.E > len(script) + 3:
                raise RuntimeError("driver keeps evaluating")
            return self.cur()[0], self.cur()[0]

        def initialize_grid(self):
            pass

        def get_total_num_points(self, doNaive=False, distinct_function_evals=True):
            return self.cur()[1]

        def refine(self):
            self.R += 1
            self.events.append("R")

    def stop(e, n):
        return (e <= tol and n >= min_ev) or (max_ev is not None and n > max_ev)
    s = Stub()
    bad = []
    try:
        res = s.continue_adaptive_refinement(tol=tol, max_time=None, max_evaluations=max_ev, min_evaluations=min_ev)
    except RuntimeError:
        first = next((i for i, (e, n) in enumerate(script) if stop(e, n)), None)
        if first is not None:
            bad.append("driver did not stop at evaluation %d which meets a stopping rule" % (first + 1))
        return bad
    evs = [script[min(i, len(script) - 1)] for i in range(s.E)]
    first = next((i for i, (e, n) in enumerate(evs) if stop(e, n)), None)
    if first is None:
        bad.append("stopped after %d evaluations although no stopping rule was met" % s.E)
    elif first != s.E - 1:
        bad.append("stopped at evaluation %d, first evaluation meeting a rule is %d" % (s.E, first + 1))
    if s.R != s.E - 1 or s.events[-1] != "E":
        bad.append("%d refinements for %d evaluations (events %s)" % (s.R, s.E, "".join(s.events)))
    if not (len(res[5]) == len(res[6]) == len(res[7]) == s.E):
        bad.append("history lengths %d/%d/%d for %d evaluations" % (len(res[5]), len(res[6]), len(res[7]), s.E))
    elif list(res[5]) != [e for e, _ in evs] or list(res[6]) != [n for _, n in evs]:
        bad.append("history does not record the evaluations")
    return bad


@handler("C13.driver")
def c13_driver(inp, obligation):
    tol = float(inp.get("tol", 0.5))
    mn = int(inp.get("min_evaluations", 3))
    mx = inp.get("max_evaluations")
    mx = int(mx) if mx is not None else None
    errs = [tol - 1.0, tol, tol + 1.0]
    pts = sorted({mn - 1, mn, mn + 1} | ({mx, mx + 1} if mx is not None else set()))
    steps = list(itertools.product(errs, pts))
    tried = 0
    for L in (1, 2, 3):
        for script in itertools.product(steps, repeat=L):
            script = list(script) + [(tol - 1.0, max(pts) + 1 + (mx or 0))]   # finally a step that must stop
            tried += 1
            for prev in ([inp["tolerance_prev"]] if inp.get("tolerance_prev") is not None else []) + [tol + 1.0, tol - 1.0]:
                bad = run_script(script, tol, mn, mx, float(prev))
                if bad:
                    return True, {"script(error,npts)": script, "tol": tol, "min_evaluations": mn, "max_evaluations": mx, "tolerance of the previous call": float(prev), "violations": bad}
    return False, {"scripts_tried": tried}


@handler("C13.error_estimate")
def c13_error_estimate(inp, obligation):
    """the real Integration.get_global_error_estimate on the counter-model's vectors against an independent numpy computation of the statement"""
    import numpy as np
    from sparseSpACE.GridOperation import Integration
    ref = np.array([float(x) for x in inp["reference"]])
    res = np.array([float(x) for x in inp["result"]])
    p = np.inf if inp["norm"] == "inf" else int(inp["norm"])
    op = object.__new__(Integration)
    op.reference_solution = ref
    op.integral = res
    got = op.get_global_error_estimate(None, p)

    def nrm(v):
        v = np.abs(np.asarray(v, dtype=float))
        return float(v.max()) if p == np.inf else float((v ** p).sum() ** (1.0 / p))
    scale = 1.0 if p == np.inf else len(res) ** (1.0 / p)
    if not np.any(ref != 0.0):
        want, kind = nrm(res) / scale, "absolute (zero reference)"
    elif np.all(ref != 0.0):
        want, kind = nrm((ref - res) / ref) / scale, "relative (non-zero reference)"
    else:
        return False, {"note": "reference with some zero components: outside the contract"}
    ok = got is not None and abs(float(got) - want) <= 1e-9 * max(1.0, abs(want))
    return (not ok), {"reference": ref.tolist(), "result": res.tolist(), "norm": inp["norm"], "reported": None if got is None else float(got), "expected": want, "expected_kind": kind}


@handler("C13.local_error")
def c13_local_error(inp, obligation):
    """the real local error estimators on the counter-model's vectors (and a few more): normalised norm of the absolute values, never negative"""
    import numpy as np
    from types import SimpleNamespace as NS
    from sparseSpACE.ErrorCalculator import ErrorCalculatorSingleDimVolumeGuided, ErrorCalculatorExtendSplit
    kind, n = inp["estimator"], int(inp["n"])
    norm = np.inf if inp["norm"] == "inf" else int(inp["norm"])
    rng = np.random.RandomState(5)
    cases = [{k: np.array([float(x) for x in v]) for k, v in inp["vectors"].items()}]
    for _ in range(6):
        cases.append({k: rng.uniform(-3, 3, n) * rng.choice([1.0, 1e-9, 1e6]) for k in inp["vectors"]})
    bad = []
    for vecs in cases:
        if kind == "volume":
            got = ErrorCalculatorSingleDimVolumeGuided().calc_error(NS(volume=vecs["vol"].copy()), norm)
            dev = np.abs(vecs["vol"])
        else:
            cur = vecs["sib"] if kind == "extend-parent" else vecs["val"]
            ro = NS(value=cur.copy(), sum_siblings=cur.copy(), switch_to_parent_estimation=(kind == "extend-parent"), parent_info=NS(previous_value=vecs["prev"].copy()))
            got = ErrorCalculatorExtendSplit().calc_error(ro, norm)
            dev = np.abs(cur - vecs["prev"])
        want = (np.max(dev) if norm == np.inf else (np.sum(dev ** norm)) ** (1.0 / norm) / n ** (1.0 / norm))
        if not (float(got) >= 0.0) or abs(float(got) - float(want)) > 1e-9 * max(1.0, abs(float(want))):
            bad.append("%s estimator, norm %r, vectors %r: estimate %r, normalised norm of the absolute values %r" % (kind, inp["norm"], {k: v.tolist() for k, v in vecs.items()}, float(got), float(want)))
    return bool(bad), {"violations": bad[:4]}


@handler("C13.point_count")
def c13_point_count(inp, obligation):
    """the chain get_total_num_points -> get_distinct_points -> get_f_dict_size on real objects: after evaluating a known number of distinct points (with repeats, singly and
    in batches) the reported count is that number"""
    import numpy as np
    from sparseSpACE.Function import GenzCornerPeak
    from sparseSpACE.GridOperation import Integration
    from sparseSpACE.Grid import TrapezoidalGrid
    from sparseSpACE.StandardCombi import StandardCombi
    a, b = np.zeros(2), np.ones(2)
    f = GenzCornerPeak(coeffs=np.array([1.0, 2.0]))
    op = Integration(f=f, grid=TrapezoidalGrid(a, b), dim=2)
    combi = StandardCombi(a, b, operation=op, print_output=False)
    combi.scheme = []
    pts = [(0.1, 0.2), (0.3, 0.4), (0.1, 0.2), (0.5, 0.5)]
    for p in pts:
        f(p)
    f([(0.3, 0.4), (0.9, 0.8)])
    want = len(set(pts) | {(0.9, 0.8)})
    got = (f.get_f_dict_size(), op.get_distinct_points(combi.scheme), combi.get_total_num_points(distinct_function_evals=True))
    bad = [] if all(int(g) == want for g in got) else ["%d distinct points evaluated; get_f_dict_size / get_distinct_points / get_total_num_points report %r" % (want, got)]
    return bool(bad), {"violations": bad}


@handler("C13.refused_request")
def c13_refused_request(inp, obligation):
    """a run, then requests the driver refuses (non-scalar levels): the history arrays of the run must be what they were, and a continuation returns one entry per
    evaluation of the whole run"""
    import numpy as np
    from bounded import _drivers_common as dc
    bad = []
    for st in ("dimwise", "extend"):
        cfg = {"strategy": st, "a": [0.0, 0.0], "b": [1.0, 1.0], "norm": "inf", "opts": {} if st == "dimwise" else {"version": 0, "number_of_refinements_before_extend": 2},
               "grid": {"type": "GlobalTrapezoidal" if st == "dimwise" else "Trapezoidal", "boundary": True}}
        s, eo, f = dc.build(cfg, [["corner", [1.0, 3.0]]], [0.1])
        r1 = dc.run_adaptive(s, eo, 1, 2, -1.0, 40, 1)
        before = (list(s.error_array), list(s.num_point_array), list(s.surplus_error_array))
        refused = False
        try:
            with dc.quiet():
                s.performSpatiallyAdaptiv([1, 1], [2, 2], eo, -1.0, max_evaluations=40, print_output=False)
        except AssertionError:
            refused = True
        if not refused:
            continue
        after = (list(s.error_array), list(s.num_point_array), list(s.surplus_error_array))
        if after != before:
            bad.append("%s: refused performSpatiallyAdaptiv([1,1],[2,2]) changed the history arrays of the run: %d/%d/%d entries before, %d/%d/%d after"
                       % ((st,) + tuple(len(x) for x in before) + tuple(len(x) for x in after)))
            continue
        r2 = dc.continue_adaptive(s, -1.0, 90, 1)
        if list(r2[6][:len(r1[6])]) != list(r1[6]):
            bad.append("%s: continuation after a refused request lost the first stop's entries: %s vs %s" % (st, list(r1[6]), list(r2[6])))
    return bool(bad), {"violations": bad[:3]}
