"""C04 bounded stand-in: refinement never loses exactness the initial configuration had.

The real strategies are run on a vector valued integrand whose FIRST component is an arbitrary (Genz / random smooth, scaled)
function that drives the refinement, and whose other components are the functions that must stay exact:
  * dimension-wise, standard basis: every hierarchical hat basis function of the initial (lmin,lmax) sparse-grid space
    (with the level-0 boundary functions iff the grid has boundary points) + random linear combinations,
  * dimension-wise, modified basis: the d+1 monomials of degree <= 1 + random linear combinations,
  * extend-split and cell: the 2^d multilinear monomials prod_{j in S} x_j + random linear combinations.
At every stop the reported integrals of these components are compared with their analytic values, and (dimension-wise,
standard basis) the interpolant at probe points with the function values.
"""
import itertools

import numpy as np

from bounded.api import close, quiet

BUDGET = {"quick": 60.0, "thorough": 840.0}
BOUND = ("dimension-wise: d=2 with (lmin,lmax) in {(1,2),(1,3),(2,3)}, d=3 with (1,2); GlobalTrapezoidalGrid boundary on / off / off+modified basis; "
         "versions {6,2,3,7,8}; rebalancing on/off; margin in {0.9,0.5,0.99}; extend-split: d in {2,3}, lmin=1, lmax in {2,3} (d=3: 2), TrapezoidalGrid with boundary, "
         "versions {0,1,2}, refinements-before-extend {1,2,3}, automatic_extend_split, split_single_dim; cell: d in {2,3}, lmin=lmax in {1,2,3} (d=3: {1,2}), "
         "TrapezoidalGrid with boundary; domains [0,1]^d and [-0.5,1.5]^d; driver component: 40 x (Genz family member, random smooth function, or a sum of narrow one-dimensional Gaussians at random corners), norms {1,2,inf}; "
         "a systematic core (each version x boundary on/off, no rebalancing, d=2, (1,3), corner-peak driver) plus seeded random configurations; every stop index of histories with <=8 (d=3: <=4) refinement steps, each reached by a fresh run with max_evaluations (quick: first, last and two "
         "other stop indices); probe points: 8 random + the full interior lattice of the initial level; fixed anchor cases run first (the two known losses, the clean default, and an initial level 8 with refinement next to one boundary only: more than 128 points per dimension, sampled basis); extend-split core with split_single_dim and direction-symmetric drivers; seeded pseudo-random selection")
BOUND += "; fault / magnitude additions: four fixed anchor cases on the box [0,5e-5]x[0,1e-4] (dimension-wise and extend-split, first and a later stop); absolute tolerance relative to the box volume"
RULE = BOUND + "; a case is one (configuration, driver, stop limit); non-trivial = at least one refinement step before the stop"
CLAUSES = {
    "B.int.hat": "dimension-wise, standard basis: at the stop every component carrying a hierarchical hat basis function of the initial sparse-grid space has its analytic integral (rel 1e-10 / abs 1e-13)",
    "B.int.combo": "same for the random linear combinations of the exact functions",
    "B.int.linear": "dimension-wise, modified basis: the components 1, x_1..x_d have their analytic integrals (rel 1e-10 / abs 1e-13)",
    "B.int.multilinear": "extend-split and cell: the components prod_{j in S} x_j (all S) have their analytic integrals (rel 1e-10 / abs 1e-13)",
    "B.interp.exact": "dimension-wise, standard basis: instance(points) (asked twice: identical answers) reproduces the hat basis functions and their combinations at the probe points (rel 1e-10 / abs 1e-12)",
}

S_PERFORM = "sparseSpACE.spatiallyAdaptiveBase:SpatiallyAdaptivBase.performSpatiallyAdaptiv"
S_DW = "sparseSpACE.spatiallyAdaptiveSingleDimension2:SpatiallyAdaptiveSingleDimensions2.get_point_coord_for_each_dim"
S_REB = "sparseSpACE.spatiallyAdaptiveSingleDimension2:SpatiallyAdaptiveSingleDimensions2.rebalance_interval"
S_SUB = "sparseSpACE.spatiallyAdaptiveSingleDimension2:SpatiallyAdaptiveSingleDimensions2.get_subtraction_value"
S_DWI = "sparseSpACE.spatiallyAdaptiveSingleDimension2:SpatiallyAdaptiveSingleDimensions2.interpolate_points"
S_DWM = "sparseSpACE.spatiallyAdaptiveSingleDimension2:SpatiallyAdaptiveSingleDimensions2.sum_up_volumes_for_point_completely_vectorized"
S_ES = "sparseSpACE.spatiallyAdaptiveExtendSplit:SpatiallyAdaptiveExtendScheme.coarsen_grid"
S_CELL = "sparseSpACE.spatiallyAdaptiveCell:SpatiallyAdaptiveCellScheme.evaluate_operation_area"
DRIVER_SCALE = 40.0


class _StopScout(Exception):
    pass


def _dc():
    from bounded import _drivers_common as dc
    return dc


# ---------------------------------------------------------------------------------------------------------
# the functions that must stay exact
# ---------------------------------------------------------------------------------------------------------

def hat_basis(d, lmin, lmax, boundary):
    """Hierarchical basis of sum_{l in initial index set} V_l: level vectors k with sum_j max(k_j,lmin) <= lmax+(d-1)lmin."""
    out = []
    for k in itertools.product(range(0 if boundary else 1, lmax + 1), repeat=d):
        if sum(max(kj, lmin) for kj in k) > lmax + (d - 1) * lmin:
            continue
        idx = [[0, 1] if kj == 0 else list(range(1, 2 ** kj, 2)) for kj in k]
        for i in itertools.product(*idx):
            out.append(["hat", list(k), list(i)])
    return out


def exact_space(case):
    cfg = case["cfg"]
    d = len(cfg["a"])
    if cfg["strategy"] == "dimwise":
        if cfg["grid"].get("modified"):
            return "linear", [["const", 1.0]] + [["mono", [j]] for j in range(d)]
        basis = hat_basis(d, case["lmin"], case["lmax"], cfg["grid"].get("boundary", True))
        if case.get("basis_sample"):     # large initial levels: the d-linear corner functions + a seeded sample of the hierarchical basis
            r = np.random.RandomState((case["combo_seed"] + 17) % (2 ** 32))
            corners = [h for h in basis if all(k == 0 for k in h[1])]
            rest = [h for h in basis if any(k != 0 for k in h[1])]
            pick = sorted(r.choice(len(rest), size=min(len(rest), int(case["basis_sample"])), replace=False).tolist())
            case["_full_basis"] = list(basis)     # the combination of ALL functions (build_comps) still runs over the whole space
            basis = corners + [rest[i] for i in pick]
        return "hat", basis
    subsets = [list(S) for r in range(d + 1) for S in itertools.combinations(range(d), r)]
    return "multilinear", [["mono", S] for S in subsets]


def build_comps(case):
    """[driver] + exact functions + 3 random linear combinations (deterministic in the case)."""
    kind, basis = exact_space(case)
    r = np.random.RandomState(case["combo_seed"] % (2 ** 32))
    combos = []
    # one combination of ALL exact functions (coefficients bounded away from 0: a single lost function is always visible), two of 6
    full = case.pop("_full_basis", None) or basis
    if len(full) > 400:      # very large initial levels: the all-functions combination stays on the sample (cost)
        full = basis
    combos.append(["lincomb", [round(float(x), 4) for x in r.choice([-1, 1], len(full)) * r.uniform(0.25, 1, len(full))], list(full)])
    for _ in range(2):
        n = min(len(basis), 6)
        pick = sorted(r.choice(len(basis), size=n, replace=False).tolist())
        combos.append(["lincomb", [round(float(x), 4) for x in r.uniform(-1, 1, n)], [basis[i] for i in pick]])
    return kind, [["scale", DRIVER_SCALE, case["driver"]]] + basis + combos, len(basis)


# ---------------------------------------------------------------------------------------------------------
# one stop
# ---------------------------------------------------------------------------------------------------------

def scout(case, max_refinements):
    dc = _dc()
    _, comps, _ = build_comps(case)
    s, eo, f = dc.build(case["cfg"], comps, None)
    log = dc.instrument(s, f)
    inner = s.refine

    def limited():
        if log["seq"].count("R") >= max_refinements or log["evals"][-1]["npts"] > 4000:
            raise _StopScout()
        return inner()

    s.refine = limited
    try:
        dc.run_adaptive(s, eo, case["lmin"], case["lmax"], -1.0, None)
    except _StopScout:
        pass
    return [e["npts"] for e in log["evals"]]


def raise_tag(exc_text, st):
    if "np.float" in exc_text or "has no attribute 'float'" in exc_text:
        return "modified-basis-np-float"
    return st + "-raises"


def check_stop(ctx, case):
    dc = _dc()
    cfg = case["cfg"]
    st = cfg["strategy"]
    kind, comps, nb = build_comps(case)
    a, b = np.asarray(cfg["a"], float), np.asarray(cfg["b"], float)
    s, eo, f = dc.build(cfg, comps, None)
    clause_main = {"hat": "B.int.hat", "linear": "B.int.linear", "multilinear": "B.int.multilinear"}[kind]
    site = {"dimwise": S_DW, "extend": S_ES, "cell": S_CELL}[st]
    try:
        r = dc.run_adaptive(s, eo, case["lmin"], case["lmax"], -1.0, case["max"])
    except Exception as e:  # a crash of the real code on a valid configuration violates the clause (the value cannot be exact)
        import traceback
        txt = "%s: %s\n%s" % (type(e).__name__, e, traceback.format_exc(limit=5))
        wc = raise_tag(txt, st)
        ctx.check(clause_main, False, S_DWM if wc == "modified-basis-np-float" else S_PERFORM, wc, txt)
        return
    res = r[3]
    exact = np.array([dc.comp_integral(c, a, b) for c in comps[1:]])
    got = res[1:]
    atol = 1e-13 * min(1.0, float(np.prod(b - a)))      # absolute tolerance relative to the size of the integrals (box volume)
    bad = [(i, comps[1 + i] if i < nb else "combo", float(got[i]), float(exact[i])) for i in range(nb)
           if not close(got[i], exact[i], rel=1e-10, abs_=atol)]
    wc = "%s-%s" % (st, "v%s" % cfg["opts"].get("version") if st != "cell" else "cell")
    if st == "dimwise":
        if cfg["opts"].get("rebalancing", True):
            wc, site = "dimwise-rebalancing", S_REB      # re-levelled points leave the coarse component grids
        else:
            wc += "-norebalancing"
            site = S_SUB
    if st == "dimwise" and kind == "hat" and cfg["opts"].get("rebalancing", True):
        # the d-linear corner functions (all levels 0) are integrated exactly by the trapezoidal rule on ANY point set with boundary points -- also after a
        # rebalancing rotation (which only re-levels points): they are judged apart from the re-levelling finding (missed seed C04_8: weights cached by level sequence)
        is_corner = lambda c_: isinstance(c_, list) and c_ and c_[0] == "hat" and all(k == 0 for k in c_[1])  # noqa
        bad_corner = [x for x in bad if is_corner(x[1])]
        ctx.check(clause_main, not bad_corner, S_DW, "dimwise-rebalancing-multilinear", "%d d-linear functions lost after %d evaluations, e.g. (index, function, reported, analytic) %s"
                  % (len(bad_corner), len(r[5]), bad_corner[:3]))
        bad = [x for x in bad if not is_corner(x[1])]
    ctx.check(clause_main, not bad, site, wc, "%d of %d exact functions lost after %d evaluations, e.g. (index, function, reported, analytic) %s"
              % (len(bad), nb, len(r[5]), bad[:3]))
    badc = [(i, float(got[i]), float(exact[i])) for i in range(nb, len(exact)) if not close(got[i], exact[i], rel=1e-10, abs_=atol)]
    ctx.check("B.int.combo", not badc, site, wc, "linear combinations not integrated exactly: %s" % badc)
    if st == "dimwise" and kind == "hat":
        P = [tuple(float(x) for x in row) for row in case["probe"]]
        with ctx.guard("B.interp.exact", S_DWI, st + "-call-raises"):
            c = dc.clone(s)
            with quiet():
                vals = np.array(c(P), float)
                vals_again = np.array(c(P), float)      # idempotence of the query on the same instance
            ctx.check("B.interp.exact", np.array_equal(vals, vals_again), S_DWI, st + "-second-query",
                      "the same interpolation query asked twice on one instance gives different values (max diff %s)" % np.max(np.abs(vals - vals_again)))
            want = f.values(np.array(P))
            diff = np.abs(vals[:, 1:] - want[:, 1:])
            tolm = 1e-12 + 1e-10 * np.abs(want[:, 1:])
            bad = np.argwhere(diff > tolm)
            ctx.check("B.interp.exact", bad.shape[0] == 0, S_DWI, wc,
                      "%d (point, component) pairs not reproduced, e.g. %s" % (bad.shape[0], [(P[i], comps[1 + j] if j < nb else "combo", float(vals[i, 1 + j]), float(want[i, 1 + j]))
                                                                                              for i, j in bad[:3]]))


# ---------------------------------------------------------------------------------------------------------
# generation
# ---------------------------------------------------------------------------------------------------------

def gen_configs(ctx, n):
    rng = ctx.rng
    out = []
    for i in range(n):
        st = ["dimwise", "dimwise", "extend", "dimwise", "cell", "dimwise", "extend"][i % 7]
        k = i // 7 + i
        d = 3 if k % 4 == 3 else 2
        a, b = ([0.0] * d, [1.0] * d) if k % 3 != 2 else ([-0.5] * d, [1.5] * d)
        cfg = {"strategy": st, "a": a, "b": b, "norm": [1, 2, "inf"][k % 3]}
        if st == "dimwise":
            g = [{"boundary": True}, {"boundary": False}, {"boundary": False, "modified": True}][(i // 2) % 3]
            cfg["grid"] = dict(g, type="GlobalTrapezoidal")
            cfg["opts"] = {"version": [6, 2, 3, 7, 8][k % 5], "rebalancing": (k // 2) % 3 == 2}
            if k % 4 == 1:
                cfg["opts"]["margin"] = [0.5, 0.99][k % 2]
            lm = (1, 2) if d == 3 else [(1, 2), (1, 3), (2, 3), (1, 3)][(k // 3) % 4]
        elif st == "extend":
            cfg["grid"] = {"type": "Trapezoidal", "boundary": True}
            cfg["opts"] = {"version": [0, 1, 2][k % 3], "number_of_refinements_before_extend": [1, 2, 3][(k // 2) % 3]}
            if k % 5 == 1:
                cfg["opts"]["automatic_extend_split"] = True
            elif k % 5 == 3 and cfg["opts"]["version"] == 0:
                cfg["opts"]["split_single_dim"] = True
            lm = (1, 2) if d == 3 or k % 2 == 0 else (1, 3)
        else:
            cfg["grid"] = {"type": "Trapezoidal", "boundary": True}
            cfg["opts"] = {}
            l = [1, 2, 3][k % 3] if d == 2 else [1, 2][k % 2]
            lm = (l, l)
        out.append((cfg, lm))
    return out


def gen_driver(ctx, d):
    """Arbitrary refinement-driving component: a Genz/smooth function, or (adversarial) a sum of narrow one-dimensional peaks
    that makes every dimension refine in a different corner."""
    rng = ctx.rng
    if rng.random() < 0.4:
        return ["addgauss", [rng.choice([60.0, 200.0, 600.0]) for _ in range(d)], [rng.choice([0.1, 0.9, 0.2, 0.8, 0.15, 0.85, 0.3]) for _ in range(d)]]
    return _dc().random_genz(rng, d)


def core_configs(ctx):
    """Systematic part: every coarsening version without rebalancing (plus two with), boundary on/off, d=2, (lmin,lmax)=(1,3) and one d=3
    configuration per version, each driven by narrow one-dimensional peaks in opposite corners (the refinement pattern that leaves a
    region coarse in all dimensions at once)."""
    rng = ctx.rng
    out = []
    # d = 3 with (lmin, lmax) = (1, 3) and a refinement depth that DEcreases with the dimension (a ridge: steep in x0, mild in x1, flat in x2): the states
    # [4,4,3] .. [6,4,3] in which a dimension can absorb fewer coarsenings than the one before it (seed C04_4: closed form of the version-6 partial sum)
    for vi, version in enumerate((6, 7, 8)):
        if ctx.quick() and version != 6:
            continue
        cfg = {"strategy": "dimwise", "a": [-1.0, 0.5, 2.0], "b": [2.0, 1.5, 5.0], "norm": "inf", "grid": {"type": "GlobalTrapezoidal", "boundary": True},
               "opts": {"version": version, "rebalancing": False}}
        out.append((cfg, (1, 3), ["gauss", [400.0, 40.0, 0.0], [0.23, 0.71, 0.4]], {"basis_sample": 10, "max_steps": 7, "all_stops": True}))
    for vi, version in enumerate((6, 2, 3, 7, 8)):
        for boundary in (True, False):
            d = 2
            m = rng.choice([[0.9, 0.1], [0.1, 0.9], [0.85, 0.2], [0.15, 0.8]])
            cfg = {"strategy": "dimwise", "a": [0.0] * d, "b": [1.0] * d, "norm": [1, 2, "inf"][vi % 3], "grid": {"type": "GlobalTrapezoidal", "boundary": boundary},
                   "opts": {"version": version, "rebalancing": False}}
            out.append((cfg, (1, 3), ["addgauss", [rng.choice([60.0, 200.0, 600.0])] * d, m]))
        if not ctx.quick():
            cfg = {"strategy": "dimwise", "a": [0.0] * 3, "b": [1.0] * 3, "norm": "inf", "grid": {"type": "GlobalTrapezoidal", "boundary": vi % 2 == 0},
                   "opts": {"version": version, "rebalancing": False}}
            out.append((cfg, (1, 2), ["addgauss", [200.0] * 3, rng.choice([[0.9, 0.1, 0.5], [0.1, 0.9, 0.9], [0.8, 0.2, 0.15]])]))
    for vi, version in enumerate((6, 7, 3)):  # modified basis, refinement next to (not at) the boundary: non-uniform extrapolating end intervals
        cfg = {"strategy": "dimwise", "a": [0.0, 0.0], "b": [1.0, 1.0], "norm": "inf", "grid": {"type": "GlobalTrapezoidal", "boundary": False, "modified": True},
               "opts": {"version": version, "rebalancing": False}}
        out.append((cfg, (1, 2 + vi % 2), ["addgauss", [600.0, 600.0], [[0.8, 0.3], [0.3, 0.8], [0.78, 0.22]][vi]]))
    # extend-split with the single-dimension split policy and drivers with the same profile in every direction (twin errors tie ->
    # simultaneous split in several dimensions -> calculate_new_twin_errors evaluates temporary parent areas)
    for d, nrbe, drv in ((2, 1, ["gauss", [30.0, 30.0], [0.3, 0.3]]), (2, 2, ["gauss", [30.0, 30.0], [0.3, 0.3]]), (2, 1, ["corner", [4.0, 4.0]]),
                         (3, 1, ["gauss", [30.0, 30.0, 30.0], [0.3, 0.3, 0.3]])):
        if d == 3 and ctx.quick() and nrbe != 1:
            continue
        cfg = {"strategy": "extend", "a": [-1.0, 0.5, 2.0][:d], "b": [2.0, 1.5, 5.0][:d], "norm": "inf", "grid": {"type": "Trapezoidal", "boundary": True},
               "opts": {"version": 0, "number_of_refinements_before_extend": nrbe, "split_single_dim": True}}
        out.append((cfg, (1, 2), drv))
    for boundary in (True, False):
        cfg = {"strategy": "dimwise", "a": [0.0, 0.0], "b": [1.0, 1.0], "norm": "inf", "grid": {"type": "GlobalTrapezoidal", "boundary": boundary},
               "opts": {"version": 6, "rebalancing": True}}
        out.append((cfg, (1, 2), ["addgauss", [200.0, 200.0], [0.9, 0.1]]))
    # very small boxes: the tensor-product quadrature weights (cell volumes) lie far below numpy's default absolute tolerances (missed seed C04_9: a
    # "weight is zero" test with isclose drops every weight below 1e-8)
    for (bx, st) in (([1e-3, 2e-3], "dimwise"), ([5e-5, 1e-4], "dimwise"), ([1e-3, 2e-3], "extend"), ([1e-2, 1e-2, 2e-2], "dimwise")):
        d = len(bx)
        if d == 3 and ctx.quick():
            continue
        if st == "dimwise":
            cfg = {"strategy": "dimwise", "a": [0.0] * d, "b": bx, "norm": "inf", "grid": {"type": "GlobalTrapezoidal", "boundary": True}, "opts": {"version": 6, "rebalancing": False}}
        else:
            cfg = {"strategy": "extend", "a": [0.0] * d, "b": bx, "norm": "inf", "grid": {"type": "Trapezoidal", "boundary": True}, "opts": {"version": 0, "number_of_refinements_before_extend": 1}}
        out.append((cfg, (1, 2), ["gauss", [60.0] * d, [0.8, 0.3, 0.5][:d]], {"max_steps": 3}))
    return out


def probe_points(ctx, a, b, lmax=3):
    """8 random points + every interior point of the level-lmax lattice (contains the centre of every hat function of the initial space,
    so a lost function is always seen by the interpolation clause)."""
    d = len(a)
    pts = [[ctx.rng.uniform(0.01, 0.99) for _ in range(d)] for _ in range(8)]
    n = 2 ** min(lmax, 3 if d == 2 else 2)
    pts += [list(t) for t in itertools.product([k / n for k in range(1, n)], repeat=d)]
    return [[round(a[j] + (b[j] - a[j]) * t[j], 9) for j in range(d)] for t in pts]


def anchor_cases():
    """Fixed (seed independent) witnesses of the two known losses; run first in every tier so that every finding key appears in every run."""
    grid = {"type": "GlobalTrapezoidal", "boundary": True}
    drv = ["addgauss", [200.0, 200.0], [0.9, 0.1]]
    lat2 = [[i / 4, j / 4] for i in range(1, 4) for j in range(1, 4)]
    lat3 = [[i / 8, j / 8] for i in range(1, 8) for j in range(1, 8)]
    base = {"a": [0.0, 0.0], "b": [1.0, 1.0], "norm": "inf", "strategy": "dimwise", "grid": grid}
    big = {"kind": "stop", "cfg": dict(base, opts={"version": 6, "rebalancing": False}), "lmin": 1, "lmax": 8, "basis_sample": 14,
           "driver": ["addgauss", [40000.0, 40000.0], [0.999, 0.4]], "combo_seed": 5, "probe": [[0.3, 0.6], [0.9921875, 0.4], [0.71, 0.12], [0.5, 0.5]]}
    return [
        dict(big, max=2948, index=1), dict(big, max=3135, index=5),     # >128 points per dimension, refinement next to ONE boundary only
        {"kind": "stop", "cfg": dict(base, opts={"version": 6, "rebalancing": True}), "lmin": 1, "lmax": 2, "driver": drv, "combo_seed": 1, "probe": lat2, "max": 52, "index": 2},
        {"kind": "stop", "cfg": dict(base, opts={"version": 2, "rebalancing": False}), "lmin": 1, "lmax": 3, "driver": drv, "combo_seed": 1, "probe": lat3, "max": 150, "index": 5},
        {"kind": "stop", "cfg": dict(base, opts={"version": 6, "rebalancing": False}), "lmin": 1, "lmax": 3, "driver": drv, "combo_seed": 1, "probe": lat3, "max": 150, "index": 5},
    ] + [
        # very small boxes: every tensor-product weight lies below numpy's default absolute tolerance 1e-8 (missed seed C04_9)
        {"kind": "stop", "cfg": dict(base, b=[5e-5, 1e-4], strategy=st_, grid=g_, opts=o_), "lmin": 1, "lmax": 2, "driver": ["gauss", [60.0, 60.0], [0.8, 0.3]], "combo_seed": 3,
         "probe": [[5e-5 * x, 1e-4 * y] for x, y in lat2], "max": mx, "index": ix}
        for st_, g_, o_ in (("dimwise", grid, {"version": 6, "rebalancing": False}),
                            ("extend", {"type": "Trapezoidal", "boundary": True}, {"version": 0, "number_of_refinements_before_extend": 1}))
        for mx, ix in ((0, 0), (40, 3))
    ]


def run(ctx):
    dc = _dc()
    ctx.exhaustive = False
    quick = ctx.quick()
    rounds = 0
    for case in anchor_cases():
        ctx.case(case, nontrivial=True)
        check_stop(ctx, case)
    while True:
        todo = list(core_configs(ctx)) + [(c, lm, None) for c, lm in gen_configs(ctx, 18 if quick else 70)]
        for item in todo:
            cfg, (lmin, lmax), drv = item[:3]
            extra = item[3] if len(item) > 3 else {}
            if ctx.out_of_time(0.85):
                break
            d = len(cfg["a"])
            base = {"cfg": cfg, "lmin": lmin, "lmax": lmax, "driver": drv or gen_driver(ctx, d), "combo_seed": ctx.rng.randrange(10 ** 6),
                    "probe": probe_points(ctx, cfg["a"], cfg["b"], lmax)}
            if "basis_sample" in extra:
                base["basis_sample"] = extra["basis_sample"]
            max_steps = extra.get("max_steps", 8 if d == 2 else 4)
            ctx.case(dict(base, kind="scout"), nontrivial=False)
            npts = None
            try:
                npts = scout(base, max_steps)
            except Exception:
                npts = None  # reported by the first stop below (fresh run with a guard of its own)
            if not npts:
                case = dict(base, kind="stop", max=0, index=0)
                ctx.case(case, nontrivial=False)
                check_stop(ctx, case)
                continue
            stops = [j for j in range(len(npts)) if j == 0 or npts[j] > max(npts[:j])]
            if quick and len(stops) > 4 and not extra.get("all_stops"):
                mid = ctx.rng.sample(stops[1:-1], 2)
                stops = sorted(set([stops[0], stops[-1]] + mid))
            for j in stops:
                if ctx.out_of_time(0.93):
                    break
                case = dict(base, kind="stop", max=npts[j] - 1, index=j)
                ctx.case(case, nontrivial=j > 0)
                check_stop(ctx, case)
        rounds += 1
        if quick or ctx.out_of_time(0.8) or rounds >= 6:
            break


def replay(ctx, case):
    if case.get("kind") == "scout":
        try:
            scout(case, 8 if len(case["cfg"]["a"]) == 2 else 4)
        except Exception as e:
            ctx.note("scouting run raised %s: %s" % (type(e).__name__, e))
    else:
        check_stop(ctx, case)
