"""native replay for C01 counter-models"""
from bounded.replay_models import handler


@handler("C01.reinit")
def c01_reinit(inp, obligation):
    from sparseSpACE.combiScheme import CombiScheme
    d = max(1, min(int(inp.get("dim", 2) or 2), 4))
    lmin = max(0, min(int(inp.get("lmin", 1) or 0), 3))
    lmax = max(lmin, min(int(inp.get("lmax", 2) or lmin), lmin + 3))
    bad = []

    def st(c):
        return (set(c.old_index_set), set(c.active_index_set), c.lmax_adaptive, c.lmin, c.lmax)
    fresh = CombiScheme(d)
    fresh.init_adaptive_combi_scheme(lmax, lmin)
    # histories of the object before the (re-)initialisation under test
    for hist in ("same-levels-after-updates", "other-levels-after-updates", "after-full-grid"):
        c = CombiScheme(d)
        if inp.get("initialized", True):
            lo = lmin if hist != "other-levels-after-updates" else max(0, min(int(inp.get("lmin_old", lmin) or 0), 3))
            hi = lmax if hist != "other-levels-after-updates" else max(lo, min(int(inp.get("lmax_old", lmax) or lo), lo + 3))
            if hist == "after-full-grid":
                c.init_full_grid(hi, lo)
            else:
                c.init_adaptive_combi_scheme(hi, lo)
                for _ in range(2):
                    if c.active_index_set:
                        c.update_adaptive_combi(list(sorted(c.active_index_set)[0]))
        c.init_adaptive_combi_scheme(lmax, lmin)
        if st(c) != st(fresh):
            bad.append("%s: state after init_adaptive_combi_scheme(%d,%d) is %s, a fresh object has %s" % (hist, lmax, lmin, st(c), st(fresh)))
    return bool(bad), {"dim": d, "lmax": lmax, "lmin": lmin, "violations": bad[:3]}
