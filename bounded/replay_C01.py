"""native replay for C01 counter-models"""
from bounded.replay_models import handler


@handler("C01.reinit")
def c01_reinit(inp, obligation):
    from sparseSpACE.combiScheme import CombiScheme
    d = max(1, min(int(inp.get("dim", 2) or 2), 4))
    lmin = max(0, min(int(inp.get("lmin", 1) or 0), 3))
    lmax = max(lmin, min(int(inp.get("lmax", 2) or lmin), lmin + 3))
    bad = []

    def st(c):
        return (set(c.old_index_set), set(c.active_index_set), c.lmax_adaptive, c.lmin, c.lmax)
    fresh = CombiScheme(d)
    fresh.init_adaptive_combi_scheme(lmax, lmin)
    # histories of the object before the (re-)initialisation under test
    for hist in ("same-levels-after-updates", "other-levels-after-updates", "after-full-grid"):
        c = CombiScheme(d)
        if inp.get("initialized", True):
            lo = lmin if hist != "other-levels-after-updates" else max(0, min(int(inp.get("lmin_old", lmin) or 0), 3))
            hi = lmax if hist != "other-levels-after-updates" else max(lo, min(int(inp.get("lmax_old", lmax) or lo), lo + 3))
            if hist == "after-full-grid":
                c.init_full_grid(hi, lo)
            else:
                c.init_adaptive_combi_scheme(hi, lo)
                for _ in range(2):
                    if c.active_index_set:
                        c.update_adaptive_combi(list(sorted(c.active_index_set)[0]))
        c.init_adaptive_combi_scheme(lmax, lmin)
        if st(c) != st(fresh):
            bad.append("%s: state after init_adaptive_combi_scheme(%d,%d) is %s, a fresh object has %s" % (hist, lmax, lmin, st(c), st(fresh)))
    if bad:
        return True, {"dim": d, "lmax": lmax, "lmin": lmin, "violations": bad[:3]}
    # focused native search: every refinement history of length <= 3 (all choices of active level vectors) of an object initialised with the same
    # levels, in the model's dimension and in dimension 3 (interior refinements that never pass lmax need three dimensions and lmax >= lmin + 2)
    import copy
    tried = 0
    for dd, lo, hi in sorted({(d, lmin, lmax), (3, 1, 3), (3, lmin, max(lmax, lmin + 2)), (2, 1, 3)}):
        ref = CombiScheme(dd)
        ref.init_adaptive_combi_scheme(hi, lo)
        want = st(ref)
        start = CombiScheme(dd)
        start.init_adaptive_combi_scheme(hi, lo)
        stack = [(start, [])]
        while stack and tried < 1500:
            c, hist = stack.pop()
            tried += 1
            probe = copy.deepcopy(c)
            probe.init_adaptive_combi_scheme(hi, lo)
            if st(probe) != want:
                bad.append("dimension %d, init(%d,%d), then refinements %s, then init(%d,%d) again: state %s, a fresh object has %s" % (dd, hi, lo, hist, hi, lo, st(probe), want))
                break
            if len(hist) < 3:
                for idx in sorted(c.active_index_set):
                    n = copy.deepcopy(c)
                    n.update_adaptive_combi(list(idx))
                    stack.append((n, hist + [idx]))
        if bad:
            break
    return bool(bad), {"dim": d, "lmax": lmax, "lmin": lmin, "histories_tried": tried, "violations": bad[:3]}
