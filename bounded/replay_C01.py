"""native replay for C01 counter-models"""
from bounded.replay_models import handler


@handler("C01.reinit")
def c01_reinit(inp, obligation):
    from sparseSpACE.combiScheme import CombiScheme
    d = max(1, min(int(inp.get("dim", 2) or 2), 4))
    lmin = max(0, min(int(inp.get("lmin", 1) or 0), 3))
    lmax = max(lmin, min(int(inp.get("lmax", 2) or lmin), lmin + 3))
    bad = []

    def st(c):
        return (set(c.old_index_set), set(c.active_index_set), c.lmax_adaptive, c.lmin, c.lmax)
    if inp.get("refusal"):
        # the refusal contract: requests with an invalid level range (the model's one first) must raise and leave a used object exactly as it was
        lo0 = max(0, min(int(inp.get("lmin_old", 1) or 0), 3))
        hi0 = max(lo0, min(int(inp.get("lmax_old", lo0 + 1) or lo0), lo0 + 3))
        reqs = [(int(inp.get("lmax", 0) or 0), int(inp.get("lmin", 0) or 0))] + [(0, 4), (1, -1), (-1, 0), (-2, -1), (lo0 + 5, -1), (0, lo0 + 1)]
        for (rmax, rmin) in reqs:
            if rmax >= rmin >= 0:
                continue
            rmax, rmin = max(-3, min(rmax, 8)), max(-3, min(rmin, 8))
            if rmax >= rmin >= 0:
                continue
            for hist in (0, 2):
                c = CombiScheme(d)
                c.init_adaptive_combi_scheme(hi0, lo0)
                for _ in range(hist):
                    if c.active_index_set:
                        c.update_adaptive_combi(list(sorted(c.active_index_set)[0]))
                before = st(c)
                try:
                    c.init_adaptive_combi_scheme(rmax, rmin)
                    bad.append("init_adaptive_combi_scheme(lmax=%d, lmin=%d) was accepted although the range is invalid" % (rmax, rmin))
                except AssertionError:
                    if st(c) != before:
                        bad.append("refused init_adaptive_combi_scheme(lmax=%d, lmin=%d) on a scheme (d=%d, lmax=%d, lmin=%d, %d updates) changed its state from %s to %s"
                                   % (rmax, rmin, d, hi0, lo0, hist, before[2:], st(c)[2:]))
        if bad:
            return True, {"dim": d, "lmax_old": hi0, "lmin_old": lo0, "violations": bad[:3]}
        return False, {"dim": d, "note": "refused requests left the object untouched natively"}
    fresh = CombiScheme(d)
    fresh.init_adaptive_combi_scheme(lmax, lmin)
    # histories of the object before the (re-)initialisation under test
    for hist in ("same-levels-after-updates", "other-levels-after-updates", "after-full-grid"):
        c = CombiScheme(d)
        if inp.get("initialized", True):
            lo = lmin if hist != "other-levels-after-updates" else max(0, min(int(inp.get("lmin_old", lmin) or 0), 3))
            hi = lmax if hist != "other-levels-after-updates" else max(lo, min(int(inp.get("lmax_old", lmax) or lo), lo + 3))
            if hist == "after-full-grid":
                c.init_full_grid(hi, lo)
            else:
                c.init_adaptive_combi_scheme(hi, lo)
                for _ in range(2):
                    if c.active_index_set:
                        c.update_adaptive_combi(list(sorted(c.active_index_set)[0]))
        c.init_adaptive_combi_scheme(lmax, lmin)
        if st(c) != st(fresh):
            bad.append("%s: state after init_adaptive_combi_scheme(%d,%d) is %s, a fresh object has %s" % (hist, lmax, lmin, st(c), st(fresh)))
    if bad:
        return True, {"dim": d, "lmax": lmax, "lmin": lmin, "violations": bad[:3]}
    # focused native search: every refinement history of length <= 3 (all choices of active level vectors) of an object initialised with the same
    # levels, in the model's dimension and in dimension 3 (interior refinements that never pass lmax need three dimensions and lmax >= lmin + 2)
    import copy
    tried = 0
    for dd, lo, hi in sorted({(d, lmin, lmax), (3, 1, 3), (3, lmin, max(lmax, lmin + 2)), (2, 1, 3)}):
        ref = CombiScheme(dd)
        ref.init_adaptive_combi_scheme(hi, lo)
        want = st(ref)
        start = CombiScheme(dd)
        start.init_adaptive_combi_scheme(hi, lo)
        stack = [(start, [])]
        while stack and tried < 1500:
            c, hist = stack.pop()
            tried += 1
            probe = copy.deepcopy(c)
            probe.init_adaptive_combi_scheme(hi, lo)
            if st(probe) != want:
                bad.append("dimension %d, init(%d,%d), then refinements %s, then init(%d,%d) again: state %s, a fresh object has %s" % (dd, hi, lo, hist, hi, lo, st(probe), want))
                break
            if len(hist) < 3:
                for idx in sorted(c.active_index_set):
                    n = copy.deepcopy(c)
                    n.update_adaptive_combi(list(idx))
                    stack.append((n, hist + [idx]))
        if bad:
            break
    return bool(bad), {"dim": d, "lmax": lmax, "lmin": lmin, "histories_tried": tried, "violations": bad[:3]}


@handler("C01.scheme_query")
def c01_scheme_query(inp, obligation):
    """adaptive getCombiScheme on real objects after short refinement histories: the returned scheme is the inclusion-exclusion scheme of exactly old | active
    (recomputed here from the definition), whatever lmin / lmax arguments are passed, and the query changes nothing"""
    import itertools
    import random
    from sparseSpACE.combiScheme import CombiScheme
    rng = random.Random(3)
    bad = []

    def reference(index_set, lmin, d):
        coeff = {}
        for g in index_set:
            for s in itertools.product(*[([0] if g[i] <= lmin else [0, -1]) for i in range(d)]):
                k = tuple(a + b for a, b in zip(g, s))
                coeff[k] = coeff.get(k, 0) + (-1) ** sum(1 for x in s if x == -1)
        return sorted((k, c) for k, c in coeff.items() if c != 0)
    for d, lmin, lmax in ((2, 1, 3), (3, 1, 2), (2, 2, 3), (3, 1, 3), (1, 1, 3)):
        c = CombiScheme(d)
        c.init_adaptive_combi_scheme(lmax, lmin)
        for step in range(4):
            if c.active_index_set and step:
                c.update_adaptive_combi(list(rng.choice(sorted(c.active_index_set))))
            state = (set(c.old_index_set), set(c.active_index_set), c.lmin, c.lmax_adaptive)
            want = reference(c.old_index_set | c.active_index_set, lmin, d)
            for args in ((), (lmin + 1, lmax + 2), (0, 1)):
                got = sorted((tuple(int(x) for x in g.levelvector), g.coefficient) for g in c.getCombiScheme(*args, do_print=False))
                if got != want:
                    bad.append("d=%d lmin=%d after %d refinements, getCombiScheme%r: %s, inclusion-exclusion scheme of the index set: %s" % (d, lmin, step, args, got[:6], want[:6]))
                if (set(c.old_index_set), set(c.active_index_set), c.lmin, c.lmax_adaptive) != state:
                    bad.append("d=%d: the query changed the state of the scheme object" % d)
            if bad:
                return True, {"violations": bad[:3]}
    return False, {"violations": []}
