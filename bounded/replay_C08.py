"""native replay handlers for C08/C02 counter-models (1-D trapezoidal grid)"""
from bounded.replay_models import handler


def _run(a, b, boundary, start, end, level):
    from sparseSpACE.Grid import TrapezoidalGrid1D
    g = TrapezoidalGrid1D(a=a, b=b, boundary=boundary)
    g.set_current_area(start, end, level)
    bad = []
    if len(g.coords) != g.num_points:
        bad.append("announces %d points, returns %d (start=%r end=%r a=%r b=%r boundary=%r level=%d)" % (g.num_points, len(g.coords), start, end, a, b, boundary, level))
    if len(g.weights) != g.num_points:
        bad.append("announces %d points, returns %d weights" % (g.num_points, len(g.weights)))
    if len(g.coords) and not (min(g.coords) >= start - 1e-12 * max(1, abs(start)) and max(g.coords) <= end + 1e-12 * max(1, abs(end))):
        bad.append("points outside [start,end]")
    # composite trapezoidal weights of the returned points (independent reference): h/2 at the two ends of the box, h elsewhere
    # (n = number of equidistant points of the box including its two ends, as the grid itself announces it: the growth rule level -> n is
    #  not part of C08)
    n = int(getattr(g, "num_points_with_boundary", 2 ** level + 1))
    if len(g.coords) == len(g.weights) and not (not boundary and g.num_points == 1) and n >= 2:
        h = (end - start) / (n - 1)
        for x, w in zip(g.coords, g.weights):
            k = round((x - start) / h)
            ref = h / 2 if k in (0, n - 1) else h
            if abs(w - ref) > 1e-9 * abs(h):
                bad.append("point %r (number %d of %d in the box) has weight %r, composite trapezoidal weight is %r" % (float(x), k, n, float(w), ref))
                break
    return bad


@handler("C08.trapezoid1d")
def c08_trap(inp, obligation):
    level = int(max(0, min(inp.get("level", 1) or 0, 8)))
    tried = []
    cands = [(inp["a"], inp["b"], inp["boundary"], inp["start"], inp["end"])]
    # focused search around the counter-model: same a, b, boundary; ends within / just outside the isclose tolerance of the global ends
    a, b = inp["a"], inp["b"]
    for s in (a, a + abs(a) * 5e-10 if a else 1e-300):
        for e in (b, b - abs(b) * 5e-10 if b else -1e-300, b - (b - a) * 1e-12):
            if s < e:
                cands.append((a, b, inp["boundary"], s, e))
    for (a_, b_, bd, s, e) in cands:
        if not (a_ <= s < e <= b_):
            continue
        for lv in sorted({level, 1, 2}):
            bad = _run(a_, b_, bd, s, e, lv)
            tried.append({"a": a_, "b": b_, "boundary": bd, "start": s, "end": e, "level": lv, "violations": bad})
            if bad:
                return True, {"input": tried[-1], "note": "level clamped to <= 8 for replay" if level != inp.get("level") else ""}
    return False, {"tried": len(tried)}


@handler("C08.tensor")
def c08_tensor(inp, obligation):
    """the real tensor grid (TrapezoidalGrid) on the counter-model's domain / sub-box / level vector, with both settings of the (single) boundary flag:
    per dimension the reported count equals the number of coordinates and of weights and the count the 1-D grid announces; points inside the sub-box"""
    import numpy as np
    from sparseSpACE.Grid import TrapezoidalGrid
    nd = int(inp["ndim"])
    a, b = [float(x) for x in inp["a"]], [float(x) for x in inp["b"]]
    boxes = [([float(x) for x in inp["start"]], [float(x) for x in inp["end"]])]
    boxes += [(list(a), list(b)), (list(a), [0.5 * (x + y) for x, y in zip(a, b)]), ([0.5 * (x + y) for x, y in zip(a, b)], list(b)),
              ([x + 0.25 * (y - x) for x, y in zip(a, b)], [x + 0.5 * (y - x) for x, y in zip(a, b)])]
    levels = [[int(max(0, min(l or 0, 6))) for l in inp["level"]]] + [[1] * nd, [2] * nd, list(range(1, nd + 1)), list(range(nd, 0, -1))]
    bad, tried = [], 0
    for boundary in sorted(set(bool(x) for x in inp["boundary"]) | {True, False}):
        for start, end in boxes:
            if not all(a[d] <= start[d] < end[d] <= b[d] for d in range(nd)):
                continue
            for lv in levels:
                tried += 1
                g = TrapezoidalGrid(np.array(a), np.array(b), boundary=boundary)
                g.setCurrentArea(np.array(start), np.array(end), list(lv))
                announced = list(g.levelToNumPoints(list(lv)))
                for d in range(nd):
                    n = int(g.numPoints[d])
                    c, w = g.coordinate_array[d], g.weights[d]
                    ctx = "(boundary=%r box %r..%r levels %r dim %d)" % (boundary, start, end, lv, d)
                    if len(c) != n or len(w) != n or int(announced[d]) != n:
                        bad.append("reports %d points, returns %d coordinates and %d weights, the 1-D grid announces %d %s" % (n, len(c), len(w), int(announced[d]), ctx))
                    elif len(c) and not (boundary is False and n == 1) and not (min(c) >= start[d] - 1e-12 * max(1, abs(start[d])) and max(c) <= end[d] + 1e-12 * max(1, abs(end[d]))):
                        bad.append("points outside the sub-box %s" % ctx)
                if bad:
                    return True, {"violations": bad[:4]}
    return False, {"tried": tried}
