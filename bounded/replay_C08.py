"""native replay handlers for C08/C02 counter-models (1-D trapezoidal grid)"""
from bounded.replay_models import handler


def _run(a, b, boundary, start, end, level):
    from sparseSpACE.Grid import TrapezoidalGrid1D
    g = TrapezoidalGrid1D(a=a, b=b, boundary=boundary)
    g.set_current_area(start, end, level)
    bad = []
    if len(g.coords) != g.num_points:
        bad.append("announces %d points, returns %d (start=%r end=%r a=%r b=%r boundary=%r level=%d)" % (g.num_points, len(g.coords), start, end, a, b, boundary, level))
    if len(g.weights) != g.num_points:
        bad.append("announces %d points, returns %d weights" % (g.num_points, len(g.weights)))
    if len(g.coords) and not (min(g.coords) >= start - 1e-12 * max(1, abs(start)) and max(g.coords) <= end + 1e-12 * max(1, abs(end))):
        bad.append("points outside [start,end]")
    # composite trapezoidal weights of the returned points (independent reference): h/2 at the two ends of the box, h elsewhere
    # (n = number of equidistant points of the box including its two ends, as the grid itself announces it: the growth rule level -> n is
    #  not part of C08)
    n = int(getattr(g, "num_points_with_boundary", 2 ** level + 1))
    if len(g.coords) == len(g.weights) and not (not boundary and g.num_points == 1) and n >= 2:
        h = (end - start) / (n - 1)
        for x, w in zip(g.coords, g.weights):
            k = round((x - start) / h)
            ref = h / 2 if k in (0, n - 1) else h
            if abs(w - ref) > 1e-9 * abs(h):
                bad.append("point %r (number %d of %d in the box) has weight %r, composite trapezoidal weight is %r" % (float(x), k, n, float(w), ref))
                break
    return bad


@handler("C08.trapezoid1d")
def c08_trap(inp, obligation):
    level = int(max(0, min(inp.get("level", 1) or 0, 8)))
    tried = []
    cands = [(inp["a"], inp["b"], inp["boundary"], inp["start"], inp["end"])]
    # focused search around the counter-model: same a, b, boundary; ends within / just outside the isclose tolerance of the global ends
    a, b = inp["a"], inp["b"]
    for s in (a, a + abs(a) * 5e-10 if a else 1e-300):
        for e in (b, b - abs(b) * 5e-10 if b else -1e-300, b - (b - a) * 1e-12):
            if s < e:
                cands.append((a, b, inp["boundary"], s, e))
    for (a_, b_, bd, s, e) in cands:
        if not (a_ <= s < e <= b_):
            continue
        for lv in sorted({level, 1, 2}):
            bad = _run(a_, b_, bd, s, e, lv)
            tried.append({"a": a_, "b": b_, "boundary": bd, "start": s, "end": e, "level": lv, "violations": bad})
            if bad:
                return True, {"input": tried[-1], "note": "level clamped to <= 8 for replay" if level != inp.get("level") else ""}
    return False, {"tried": len(tried)}
