"""C12 bounded stand-in: runtime contracts on the real sparseSpACE.Function classes.

Part 1 (evaluation): every built-in Function class, a few parameter choices each; histories over an
11-letter operation alphabet; every value returned by the real __call__ / eval_vectorized is compared with the
scalar `eval` of a *separately constructed* instance that is never called through __call__.
Part 2 (integrals): getAnalyticSolutionIntegral against the harness's own nested Gauss-Legendre quadrature of
the point evaluation (panels split at the kinks of the integrand, order/panels raised until two successive
rules agree).
"""
import math
import random
import itertools
import numpy as np
from bounded.api import quiet, close

BUDGET = {"quick": 70.0, "thorough": 840.0}

OPS = "SRLBDUEVNXC"
OPS_TEXT = ("S single new point (tuple); R single repeated point; L single new point passed as list/ndarray; B batch of 2-4 new tuples; "
            "D batch of tuples mixing old points, new points and a duplicate (40%: only old points); U batch passed as list of lists / (n,d) ndarray; E empty batch; "
            "V eval_vectorized on an (n,d) array, n in 0..4; N eval_vectorized on an (m,n,d) array; X reset_dictionary; C deactivate_caching")

BOUND = ("every class of sparseSpACE/Function.py (33 classes, 1-4 parameter choices each, d in {1,2,3} where the class allows; "
         "FunctionPolysPCE with plain callables instead of chaospy polynomials); histories over the alphabet {" + OPS_TEXT + "}: "
         "quick = all histories of length<=2 for every configuration + all of length 3 for 8 core configurations + seeded samples of length 3-5; "
         "thorough = all of length<=3 for every configuration, all of length 4 for the core configurations, seeded samples of length 5; "
         "points uniform in the class's domain, 20% of the coordinates on the class's kinks/borders. "
         "Integrals: every class that returns an analytic/numeric reference integral except FunctionGeneralizedNormal (marked incorrect in the source), "
         "d in {1,2,3} where defined, seeded random boxes in the domain (unit cube only for FunctionDiagonalDiscont/FunctionG/FunctionGShifted, whose "
         "integral is only defined there; d=1 only for LambdaFunction/Polynomial1d); quick 3 (2 for d=3), thorough 25 boxes per configuration (scipy-based 3-D integrals: 1-3 resp. 2-12; FunctionUQNormal2 d=3 only in thorough)")
BOUND += "; fault / magnitude additions: whole-number points handed to eval_vectorized as an int64 array (30% of the vectorised operations where the domain contains integers)"
BOUND += "; round-10 additions: one box of zero extent in a random dimension per analytic-integral configuration"
RULE = (BOUND + "; a case is one (configuration, history, seed) or one (configuration, box); non-trivial = the history contains at least one "
        "evaluation / the box has positive volume. Tolerances: values rel 1e-11 + abs 1e-13 (scalar and numpy code round differently); "
        "analytic integrals |analytic - Q| <= 1e-8 * Q(|f|) + 10 * |Q_fine - Q_coarse|, cases whose oracle does not converge to 1e-7 are skipped and "
        "noted; integrals that the library itself computes with scipy dblquad/tplquad: 5e-3 * Q(|f|)")

CLAUSES = {
    "B.eval.shape": "eval(point) has exactly output_length() entries (the declared output length is the real one)",
    "B.eval.single": "f(point) returns normally an ndarray of shape (output_length,) equal to eval(point), in every cache state",
    "B.eval.batch": "f(points) (n>=1, tuples, lists or ndarray) returns normally an ndarray of shape (n, output_length) whose rows equal eval point by point, in every cache state",
    "B.eval.empty": "f(empty batch) returns normally an array of shape (0, output_length)",
    "B.eval.vectorized": "eval_vectorized(array of shape (..., d)) reshaped to (..., output_length) equals eval point by point (also for n=0)",
    "B.eval.consistent": "all values returned for one and the same point within a history (single/batch/vectorised, cache on/off, before/after reset) agree",
    "B.count.distinct": "while caching is on get_f_dict_size() == number of distinct points passed to __call__ since the last reset; == 0 right after reset_dictionary()",
    "B.eval.report_stable": "an array returned by f(...) / eval_vectorized earlier in the history (kept by the caller without copying) still holds the reported values at the end of the history",
    "B.cache.consistent": "at the end of a history every (point, value) pair exposed by get_f_dict_points()/get_f_dict_values() equals eval(point)",
    "B.int.idempotent": "getAnalyticSolutionIntegral(start, end) asked twice on the same instance (evaluations of the function in between) returns the same value; the first returned object is unchanged",
    "B.int.returns": "getAnalyticSolutionIntegral(start, end) returns normally a number/array (not None) for a box in the domain",
    "B.int.analytic": "closed-form getAnalyticSolutionIntegral(start, end) == Gauss-Legendre quadrature of eval over the box",
    "B.int.numeric": "scipy-based getAnalyticSolutionIntegral (base-class default, FunctionUQ*, FunctionUQNormal*: weighted with the truncated normal density) == own quadrature, rel 5e-3 (the library value is itself an adaptive scipy quadrature, partly across a jump)",
}

SITE_CALL = "sparseSpACE.Function:Function.__call__"
VAL_REL, VAL_ABS = 1e-11, 1e-13


# ----------------------------------------------------------------------------------------------------------------
# configurations
# ----------------------------------------------------------------------------------------------------------------
def _phi_cdf(x):
    return 0.5 * math.erfc(-x / math.sqrt(2.0))


def _phi_pdf(x):
    return math.exp(-0.5 * x * x) / math.sqrt(2.0 * math.pi)


class _axis_breaks(object):
    """Kinks/jumps on axis-parallel hyperplanes: per dimension a list of coordinates."""
    def __init__(self, per_dim):
        self.axis = per_dim

    def __call__(self, k, prefix):
        return self.axis[k]


def _diag_breaks(k, prefix):
    # FunctionDiagonalDiscont: jump at sum(x) == 1; after integrating the inner dimensions the kink stays at 1 - sum(prefix)
    return (1.0 - sum(prefix),)


_CONFIGS = None


def configs():
    """Deterministic table of configurations (independent of the seed)."""
    global _CONFIGS
    if _CONFIGS is not None:
        return _CONFIGS
    from sparseSpACE import Function as F
    import scipy.stats as sps
    C = []

    def add(name, d, make, lo, hi, special=None, points=None, integral=None, core=False, tag=""):
        C.append({"name": name, "d": d, "make": make, "lo": [float(x) for x in lo], "hi": [float(x) for x in hi],
                  "special": special or [[] for _ in range(d)], "points": points or [], "integral": integral, "core": core, "tag": tag})

    def ana(lo, hi, breaks=None, box="any", mode="analytic", weight=None, nmax=None):
        return {"mode": mode, "lo": lo, "hi": hi, "breaks": breaks or _axis_breaks([[] for _ in lo]), "box": box, "weight": weight, "nmax": nmax}

    co = [1.3, 0.7, 2.1]
    mid = [0.35, 0.6, 0.45]
    for d in (1, 2, 3):
        lo0, hi0, lo1, hi1 = [0.0] * d, [1.0] * d, [-1.5] * d, [2.0] * d
        add("ConstantValue(3.5)/d%d" % d, d, lambda: F.ConstantValue(3.5), lo1, hi1, integral=ana(lo1, hi1), core=(d == 2))
        add("FunctionDiagonalDiscont/d%d" % d, d, lambda: F.FunctionDiagonalDiscont(), lo0, hi0,
            points=[[1.0 / d] * d, [1.0] + [0.0] * (d - 1), [0.25] * (d - 1) + [1.0 - 0.25 * (d - 1)]],
            integral=ana(lo0, hi0, _diag_breaks, box="unit"))
        add("FunctionShift(GenzGaussian)/d%d" % d, d,
            (lambda d=d: F.FunctionShift(F.GenzGaussian(mid[:d], co[:d]), lambda c, d=d: [x + s for x, s in zip(c, [0.25, -0.5, 1.0][:d])])),
            lo1, hi1, integral=ana(lo1, hi1))
        add("FunctionG/d%d" % d, d, (lambda d=d: F.FunctionG(d)), lo0, hi0, special=[[0.5, 0.0, 1.0]] * d,
            integral=ana(lo0, hi0, _axis_breaks([[0.5]] * d), box="unit"))
        add("FunctionGShifted/d%d" % d, d, (lambda d=d: F.FunctionGShifted(d)), lo0, hi0, special=[[0.3, 0.8, 0.0, 1.0]] * d,
            integral=ana(lo0, hi0, _axis_breaks([[0.3, 0.8]] * d), box="unit"))
        add("FunctionCompose(Gaussian*2-Polynomial/2)/d%d" % d, d,
            (lambda d=d: F.FunctionCompose([(F.GenzGaussian(mid[:d], co[:d]), 2.0), (F.FunctionPolynomial(co[:d], 3), -0.5)])),
            lo1, hi1, integral=ana(lo1, hi1))
        add("FunctionLinear/d%d" % d, d, (lambda d=d: F.FunctionLinear([1.5, -0.75, 2.0][:d])), lo1, hi1, special=[[0.0]] * d,
            integral=ana(lo1, hi1), core=(d == 2))
        add("FunctionMultilinear/d%d" % d, d, (lambda d=d: F.FunctionMultilinear([2.0, 3.0, -1.5][:d])), lo1, hi1, integral=ana(lo1, hi1))
        add("FunctionPolynomial(deg2)/d%d" % d, d, (lambda d=d: F.FunctionPolynomial([1.5, -0.75, 2.0][:d])), lo1, hi1, integral=ana(lo1, hi1))
        add("FunctionPolynomial(deg3)/d%d" % d, d, (lambda d=d: F.FunctionPolynomial([0.5, 1.25, -1.0][:d], degree=3)), lo1, hi1, integral=ana(lo1, hi1))
        add("GenzCornerPeak/d%d" % d, d, (lambda d=d: F.GenzCornerPeak(co[:d])), lo0, hi1, integral=ana(lo0, hi1))
        add("GenzCornerPeak(b)/d%d" % d, d, (lambda d=d: F.GenzCornerPeak([0.4, 3.0, 1.0][:d])), lo0, hi0, integral=ana(lo0, hi0))
        add("GenzProductPeak/d%d" % d, d, (lambda d=d: F.GenzProductPeak([2.0, 3.5, 1.0][:d], mid[:d])), lo1, hi1, special=[[m] for m in mid[:d]],
            integral=ana(lo1, hi1))
        add("GenzOszillatory/d%d" % d, d, (lambda d=d: F.GenzOszillatory([2.5, 1.0, 4.0][:d], 0.3)), lo1, hi1, integral=ana(lo1, hi1))
        add("GenzOszillatory(np)/d%d" % d, d, (lambda d=d: F.GenzOszillatory(np.array([0.7, -3.0, 1.9][:d]), -0.15)), lo1, hi1, integral=ana(lo1, hi1))
        bord = [0.5, 0.25, 0.8]
        add("GenzDiscontinious/d%d" % d, d, (lambda d=d: F.GenzDiscontinious(co[:d], bord[:d])), lo1, hi1, special=[[b] for b in bord[:d]],
            integral=ana(lo1, hi1, _axis_breaks([[b] for b in bord[:d]])), core=(d == 2))
        add("GenzDiscontinious2/d%d" % d, d, (lambda d=d: F.GenzDiscontinious2(co[:d], bord[:d])), lo1, hi1, special=[[b] for b in bord[:d]],
            integral=ana(lo1, hi1, _axis_breaks([[b] for b in bord[:d]])))
        add("GenzC0/d%d" % d, d, (lambda d=d: F.GenzC0(co[:d], mid[:d])), lo1, hi1, special=[[m] for m in mid[:d]],
            integral=ana(lo1, hi1, _axis_breaks([[m] for m in mid[:d]])))
        add("GenzC0(np)/d%d" % d, d, (lambda d=d: F.GenzC0(np.array([3.0, 0.5, 1.0][:d]), np.array([0.0, 1.0, -0.5][:d]))), lo1, hi1,
            special=[[m] for m in [0.0, 1.0, -0.5][:d]], integral=ana(lo1, hi1, _axis_breaks([[m] for m in [0.0, 1.0, -0.5][:d]])))
        add("GenzGaussian/d%d" % d, d, (lambda d=d: F.GenzGaussian(mid[:d], co[:d])), lo1, hi1, integral=ana(lo1, hi1), core=(d == 2))
        add("GenzGaussian(b)/d%d" % d, d, (lambda d=d: F.GenzGaussian([-0.2, 1.1, 0.0][:d], [4.0, 0.3, 2.5][:d])), lo1, hi1, integral=ana(lo1, hi1))
        add("FunctionExpVar/d%d" % d, d, lambda: F.FunctionExpVar(), lo0, hi1, special=[[0.0, 1.0]] * d, integral=ana([0.08] * d, hi1))
        add("FunctionGeneralizedNormal(exp=%d)/d%d" % (d, d), d, (lambda d=d: F.FunctionGeneralizedNormal(mid[:d], co[:d], d)), lo0, hi0)
    # zero coefficients in GenzOszillatory (the source handles them explicitly)
    add("GenzOszillatory(c=[0,2])/d2", 2, lambda: F.GenzOszillatory([0.0, 2.0], 0.1), [-1.5] * 2, [2.0] * 2, integral=ana([-1.5] * 2, [2.0] * 2))
    add("GenzOszillatory(c=[1.5,0,2])/d3", 3, lambda: F.GenzOszillatory([1.5, 0.0, 2.0], 0.1), [-1.5] * 3, [2.0] * 3, integral=ana([-1.5] * 3, [2.0] * 3))
    add("GenzOszillatory(c=[0,0])/d2", 2, lambda: F.GenzOszillatory([0.0, 0.0], 0.1), [-1.5] * 2, [2.0] * 2, integral=ana([-1.5] * 2, [2.0] * 2),
        tag="all-coeffs-zero")
    # 1-D only classes
    add("LambdaFunction(cos,sin)/d1", 1, lambda: F.LambdaFunction(lambda c: math.cos(2.0 * c[0]) + c[0], lambda c: 0.5 * math.sin(2.0 * c[0]) + 0.5 * c[0] ** 2),
        [-1.5], [2.0], integral=ana([-1.5], [2.0]))
    add("Polynomial1d([1,0,0,2])/d1", 1, lambda: F.Polynomial1d([1, 0, 0, 2]), [-1.5], [2.0], integral=ana([-1.5], [2.0]))
    add("Polynomial1d([3,0,1,2,-0.5])/d1", 1, lambda: F.Polynomial1d([3, 0, 1, 2, -0.5]), [-1.5], [2.0], integral=ana([-1.5], [2.0]))
    # fixed-dimension UQ models (integral computed by the library with dblquad/tplquad)
    add("FunctionUQ/d3", 3, lambda: F.FunctionUQ(), [-1.0] * 3, [1.0] * 3, special=[[], [0.0], []],
        integral=ana([-1.0] * 3, [1.0] * 3, _axis_breaks([[], [0.0], []]), mode="numeric", nmax=3))
    add("FunctionUQShifted/d3", 3, lambda: F.FunctionUQShifted(), [-1.0] * 3, [1.0] * 3, special=[[], [-0.221413], []],
        integral=ana([-1.0] * 3, [1.0] * 3, _axis_breaks([[], [-0.221413], []]), mode="numeric", nmax=3))
    add("FunctionUQ2/d2", 2, lambda: F.FunctionUQ2(), [-1.0] * 2, [1.0] * 2, special=[[], [0.0]],
        integral=ana([-1.0] * 2, [1.0] * 2, _axis_breaks([[], [0.0]]), mode="numeric"))
    add("FunctionCantileverBeamD/d3", 3, lambda: F.FunctionCantileverBeamD(), [2.0e7, 300.0, 700.0], [4.0e7, 700.0, 1300.0])
    add("FunctionCantileverBeamD(10,1)/d3", 3, lambda: F.FunctionCantileverBeamD(10.0, 1.0), [2.0e7, 300.0, 700.0], [4.0e7, 700.0, 1300.0])
    # wrappers around user callables
    add("CustomFunction(scalar)/d2", 2, lambda: F.CustomFunction(lambda c: math.sin(c[0]) * c[1] + 0.5), [-1.5] * 2, [2.0] * 2,
        integral=ana([-1.5] * 2, [2.0] * 2, mode="numeric"), core=True)
    add("CustomFunction(scalar)/d3", 3, lambda: F.CustomFunction(lambda c: c[0] * c[1] ** 2 - c[2] ** 3 + 1.0), [-1.5] * 3, [2.0] * 3,
        integral=ana([-1.5] * 3, [2.0] * 3, mode="numeric", nmax=2))
    add("CustomFunction(list,3)/d2", 2, lambda: F.CustomFunction(lambda c: [c[0] - c[1], c[0] * c[1], 7.0], output_length=3), [-1.5] * 2, [2.0] * 2, core=True)
    add("CustomFunction(ndarray,2)/d1", 1, lambda: F.CustomFunction(lambda c: np.array([c[0] ** 2, -c[0]]), output_length=2), [-1.5], [2.0])
    add("FunctionCustom(callable)/d2", 2, lambda: F.FunctionCustom(lambda c: float(c[0] * math.exp(c[1]))), [-1.5] * 2, [2.0] * 2,
        integral=ana([-1.5] * 2, [2.0] * 2, mode="numeric"))
    add("FunctionCustom(2 callables)/d2", 2, lambda: F.FunctionCustom([lambda c: c[0] + c[1], lambda c: c[0] * c[1]]), [-1.5] * 2, [2.0] * 2)
    add("FunctionCustom(callable,output_dim=2)/d3", 3, lambda: F.FunctionCustom(lambda c: [c[0] + c[2], c[1]], output_dim=2), [-1.5] * 3, [2.0] * 3)
    # wrappers around other Functions
    add("FunctionUQWeighted(Gaussian,Polynomial)/d2", 2,
        lambda: F.FunctionUQWeighted(F.GenzGaussian(mid[:2], co[:2]), F.FunctionPolynomial([1.0, 0.5], 2)), [-1.5] * 2, [2.0] * 2,
        integral=ana([-1.5] * 2, [2.0] * 2, mode="numeric"))
    add("FunctionPower(CustomFunction(list,2),2)/d2", 2,
        lambda: F.FunctionPower(F.CustomFunction(lambda c: [c[0] - c[1], 1.0 + c[0] * c[1]], output_length=2), 2), [-1.5] * 2, [2.0] * 2, core=True)
    add("FunctionPower(GenzGaussian,3)/d3", 3, lambda: F.FunctionPower(F.GenzGaussian(mid, co), 3), [-1.5] * 3, [2.0] * 3)
    add("FunctionPolysPCE/d2", 2,
        lambda: F.FunctionPolysPCE(F.CustomFunction(lambda c: [c[0] - c[1], 2.0], output_length=2),
                                   [lambda x, y: 1.0, lambda x, y: x, lambda x, y: x * y - 0.5], [1.0, 2.0, 0.5]), [-1.5] * 2, [2.0] * 2)
    add("FunctionInverseTransform(uniform,norm)/d2", 2,
        lambda: F.FunctionInverseTransform(F.GenzGaussian(mid[:2], co[:2]), [sps.uniform(-1.0, 2.0), sps.norm(0.2, 1.0)]), [0.01] * 2, [0.99] * 2)
    add("FunctionConcatenate(f,f^2)/d2", 2,
        lambda: (lambda g: F.FunctionConcatenate([g, F.FunctionPower(g, 2)]))(F.GenzGaussian(mid[:2], co[:2])), [-1.5] * 2, [2.0] * 2, core=True)
    add("FunctionConcatenate(vec3,scalar)/d1", 1,
        lambda: F.FunctionConcatenate([F.CustomFunction(lambda c: [c[0], 2 * c[0], 1.0], output_length=3), F.Polynomial1d([1, 2])]), [-1.5], [2.0])
    # UQ wrappers whose "analytic" integral is the integral against the truncated normal density
    for d in (2, 3):
        a_g, b_g = [-2.0, -1.5, -2.5][:d], [2.5, 3.0, 2.0][:d]
        mean, std = [0.2, -0.1, 0.3][:d], [0.5, 1.5, 0.8][:d]

        def w1(x, a_g=a_g, b_g=b_g):
            return np.prod([_phi_pdf(x[k]) / (_phi_cdf(b_g[k]) - _phi_cdf(a_g[k])) for k in range(len(x))])

        def w2(x, a_g=a_g, b_g=b_g, mean=mean, std=std):
            return np.prod([_phi_pdf((x[k] - mean[k]) / std[k]) / std[k] /
                            (_phi_cdf((b_g[k] - mean[k]) / std[k]) - _phi_cdf((a_g[k] - mean[k]) / std[k])) for k in range(len(x))])
        add("FunctionUQNormal(Polynomial)/d%d" % d, d,
            (lambda d=d, mean=mean, std=std, a_g=a_g, b_g=b_g: F.FunctionUQNormal(F.FunctionPolynomial([1.0, 0.5, 2.0][:d], 2), mean, std, a_g, b_g)),
            a_g, b_g, integral=ana(a_g, b_g, mode="numeric", weight=w1, nmax=(None if d == 2 else 1)))
        add("FunctionUQNormal2(Gaussian)/d%d" % d, d,
            (lambda d=d, mean=mean, std=std, a_g=a_g, b_g=b_g: F.FunctionUQNormal2(F.GenzGaussian(mid[:d], co[:d]), mean, std, a_g, b_g)),
            a_g, b_g, integral=ana(a_g, b_g, mode="numeric", weight=w2, nmax=(None if d == 2 else 0)))
    names = [c["name"] for c in C]
    assert len(set(names)) == len(names)
    _CONFIGS = C
    return C


def config_by_name(name):
    for c in configs():
        if c["name"] == name:
            return c
    raise KeyError(name)


# ----------------------------------------------------------------------------------------------------------------
# part 1: histories
# ----------------------------------------------------------------------------------------------------------------
def _sample_point(rng, cfg):
    if cfg["points"] and rng.random() < 0.2:
        return tuple(float(x) for x in rng.choice(cfg["points"]))
    p = []
    for k in range(cfg["d"]):
        sp = cfg["special"][k]
        if sp and rng.random() < 0.2:
            p.append(float(rng.choice(sp)))
        else:
            p.append(rng.uniform(cfg["lo"][k], cfg["hi"][k]))
    return tuple(p)


def run_seq(ctx, cfg, ops, seed):
    rng = random.Random("%s|%s|%s" % (seed, cfg["name"], ops))
    with quiet():
        f = cfg["make"]()
        ref = cfg["make"]()          # oracle instance: only .eval() is ever used
    cname = type(f).__name__
    d = cfg["d"]
    declared = int(ref.output_length())
    # sibling: another live instance of the same class (other parameters where the table has them) that is used in between;
    # nothing it does may influence f (no state shared between instances)
    if "_sib" not in cfg:
        cand = [c for c in configs() if c["name"] != cfg["name"] and c["d"] == d and c["lo"] == cfg["lo"] and c["hi"] == cfg["hi"]
                and c["name"].split("/")[0].split("(")[0] == cfg["name"].split("/")[0].split("(")[0]]
        cfg["_sib"] = cand[0] if cand else cfg
    with quiet():
        sib = cfg["_sib"]["make"]()
    if type(sib) is not type(f):
        with quiet():
            sib = cfg["make"]()
    kept = []            # (path, returned object, copy taken at report time)

    def oracle(p):
        # eval of the oracle instance; an exception here is an exception of the real eval (e.g. an inner function of a wrapper
        # that was contaminated through shared state) and is reported, never a crash of the harness
        try:
            with quiet():
                v = ref.eval(tuple(p))
            return np.atleast_1d(np.asarray(v, dtype=float)).reshape(-1)
        except Exception as ex:          # noqa
            ctx.check("B.eval.shape", False, "sparseSpACE.Function:%s.eval" % cname, "eval-raises", "%s.eval(%s) raised %s: %s" % (cname, p, type(ex).__name__, ex))
            return np.full(declared, np.nan)

    probe = oracle(_sample_point(rng, cfg))
    mismatch = len(probe) != declared
    ctx.check("B.eval.shape", not mismatch, "sparseSpACE.Function:%s.output_length" % cname, "declared-length-mismatch",
              "eval returns %d entries, output_length() declares %d" % (len(probe), declared))

    pool = []            # points evaluated so far in this history (any path)
    history = {}         # point -> list of (path, value)
    distinct = set()     # distinct points passed to __call__ since last reset
    caching = True
    counter_valid = True

    def where(kind):
        if kind == "empty":
            return SITE_CALL, "empty-batch"
        if mismatch:      # every non-empty evaluation of such a class fails, whatever the cache state
            return "sparseSpACE.Function:%s.output_length" % cname, "declared-length-mismatch"
        if kind == "single" and not caching:
            return SITE_CALL, "nocache-single"
        if kind in ("vec", "nested"):
            return "sparseSpACE.Function:%s.eval_vectorized" % cname, "raises-" + kind
        return SITE_CALL, "raises-" + kind

    def state():
        return ("cache" if caching else "nocache")

    def record(p, path, val, clause, site):
        p = tuple(float(x) for x in p)
        exp = oracle(p)
        ok = val.shape == exp.shape and close(val, exp, VAL_REL, VAL_ABS)
        ctx.check(clause, ok, site, "value-%s-%s" % (path, state()), "%s at %s: got %s, eval gives %s" % (cname, p, val, exp))
        for (path0, v0) in history.get(p, []):
            ctx.check("B.eval.consistent", v0.shape == val.shape and close(v0, val, VAL_REL, VAL_ABS), site,
                      "%s-vs-%s" % (path0, path), "%s at %s: %s gave %s, %s gave %s" % (cname, p, path0, v0, path, val))
        history.setdefault(p, []).append((path, np.array(val, dtype=float)))
        if p not in pool:
            pool.append(p)

    def new_points(n):
        return [_sample_point(rng, cfg) for _ in range(n)]

    def old_or_new():
        return rng.choice(pool) if pool else _sample_point(rng, cfg)

    evaluated = False
    for op in ops:
        if op in "SRL":
            p = old_or_new() if op == "R" else _sample_point(rng, cfg)
            arg = p
            if op == "L":
                arg = list(p) if rng.random() < 0.5 else np.array(p)
            site, wc = where("single")
            done = False
            if rng.random() < 0.3:
                try:
                    with quiet():
                        sib(arg)
                except Exception:
                    pass          # the sibling's own failures are reported when that configuration is the one under test
            with ctx.guard("B.eval.single", site, wc):
                with quiet():
                    r = f(arg)
                done = True
            if done:
                evaluated = True
                distinct.add(p)
                kept.append(("single", r, np.array(r, dtype=float, copy=True) if isinstance(r, np.ndarray) else None))
                okshape = isinstance(r, np.ndarray) and r.shape == (declared,)
                ctx.check("B.eval.single", okshape, SITE_CALL, "shape-single-" + state(), "%s: shape %s, declared %d" % (cname, getattr(r, "shape", None), declared))
                if okshape:
                    record(p, "single", r, "B.eval.single", SITE_CALL)
            else:
                counter_valid = False
        elif op in "BDU":
            if op == "B":
                pts = new_points(rng.randint(2, 4))
            elif op == "D" and pool and rng.random() < 0.4:
                pts = [rng.choice(pool) for _ in range(rng.randint(1, 3))]          # only points evaluated before (any path)
                pts.append(rng.choice(pts))
            elif op == "D":
                pts = [old_or_new() for _ in range(rng.randint(1, 2))] + new_points(rng.randint(1, 2))
                pts.append(rng.choice(pts))
                rng.shuffle(pts)
            else:
                pts = new_points(rng.randint(1, 3)) + ([old_or_new()] if rng.random() < 0.5 else [])
            arg = list(pts)
            if op == "U":
                arg = [list(p) for p in pts] if rng.random() < 0.5 else np.array(pts)
            site, wc = where("batch")
            done = False
            if rng.random() < 0.3:
                try:
                    with quiet():
                        sib(arg)
                except Exception:
                    pass
            with ctx.guard("B.eval.batch", site, wc):
                with quiet():
                    r = f(arg)
                done = True
            if done:
                evaluated = True
                distinct.update(pts)
                kept.append(("batch", r, np.array(r, dtype=float, copy=True) if isinstance(r, np.ndarray) else None))
                okshape = isinstance(r, np.ndarray) and r.shape == (len(pts), declared)
                ctx.check("B.eval.batch", okshape, SITE_CALL, "shape-batch-" + state(),
                          "%s: shape %s for %d points, declared %d" % (cname, getattr(r, "shape", None), len(pts), declared))
                if okshape:
                    for i, p in enumerate(pts):
                        record(p, "batch", r[i], "B.eval.batch", SITE_CALL)
                    if rng.random() < 0.5:
                        # the caller asks once more and works IN PLACE on the array it got (it is the caller's array): later evaluations of these points
                        # must still give the function values (a cache that keeps views of a returned array would now hold the caller's numbers)
                        try:
                            with quiet():
                                scratch = f(arg)
                            if isinstance(scratch, np.ndarray) and scratch is not r:
                                scratch *= 2.0
                                scratch += 1.0
                        except Exception:  # noqa  (a failure of this extra request is reported by the next regular operation)
                            pass
            else:
                counter_valid = False
        elif op == "E":
            arg = [] if rng.random() < 0.5 else np.empty((0, d))
            site, wc = where("empty")
            done = False
            with ctx.guard("B.eval.empty", site, wc):
                with quiet():
                    r = f(arg)
                done = True
            if done:
                ctx.check("B.eval.empty", np.shape(r) == (0, declared), SITE_CALL, "shape-empty", "%s: shape %s" % (cname, np.shape(r)))
        elif op in "VN":
            if op == "V":
                n = rng.randint(0, 4)
                pts = [old_or_new() if rng.random() < 0.3 else _sample_point(rng, cfg) for _ in range(n)]
                arr = np.array(pts, dtype=float).reshape((n, d))
                lead = (n,)
                if n and rng.random() < 0.3:
                    # points with whole-number coordinates handed over as an INTEGER array (box corners written as ints, an integer lattice): the values are
                    # those of the same points as floats (missed seed C12_9: result array allocated with the dtype of the coordinates)
                    ipts = []
                    for _ in range(n):
                        q = []
                        for k in range(d):
                            lo_k, hi_k = int(np.ceil(cfg["lo"][k])), int(np.floor(cfg["hi"][k]))
                            q.append(float(rng.randint(lo_k, hi_k)) if lo_k <= hi_k else None)
                        ipts.append(q)
                    if all(v is not None for q in ipts for v in q):
                        pts = [tuple(q) for q in ipts]
                        arr = np.array(pts, dtype=np.int64).reshape((n, d))
            else:
                m, n = rng.randint(1, 2), rng.randint(1, 3)
                pts = new_points(m * n)
                arr = np.array(pts, dtype=float).reshape((m, n, d))
                lead = (m, n)
            kind = "vec" if op == "V" else "nested"
            site, wc = where(kind)
            done = False
            with ctx.guard("B.eval.vectorized", site, wc):
                with quiet():
                    r = np.asarray(f.eval_vectorized(arr))
                done = True
            if done:
                kept.append((kind, r, np.array(r, dtype=float, copy=True)))
                vsite = "sparseSpACE.Function:%s.eval_vectorized" % cname
                oksize = r.size == len(pts) * declared
                ctx.check("B.eval.vectorized", oksize, vsite, "size-" + kind, "%s: result shape %s for input %s, declared %d" % (cname, r.shape, arr.shape, declared))
                if oksize:
                    r2 = r.reshape(lead + (declared,)).reshape((len(pts), declared))
                    for i, p in enumerate(pts):
                        evaluated = True
                        record(p, kind, r2[i], "B.eval.vectorized", vsite)
        elif op == "X":
            f.reset_dictionary()
            distinct = set()
            counter_valid = True
            ctx.check("B.count.distinct", f.get_f_dict_size() == 0, "sparseSpACE.Function:Function.reset_dictionary", "nonzero-after-reset",
                      "size %d after reset" % f.get_f_dict_size())
        elif op == "C":
            f.deactivate_caching()
            caching = False
        if caching and counter_valid and op not in "XC":
            n = f.get_f_dict_size()
            ctx.check("B.count.distinct", n == len(distinct), "sparseSpACE.Function:Function.get_f_dict_size", "count-after-" + op,
                      "%s: get_f_dict_size()=%d, distinct points since reset=%d (ops %s)" % (cname, n, len(distinct), ops))
    # ---- end of the history ------------------------------------------------------------------------------------
    for (path, obj, cp) in kept:
        if cp is None:
            continue
        ctx.check("B.eval.report_stable", isinstance(obj, np.ndarray) and obj.shape == cp.shape and bool(np.array_equal(np.asarray(obj, dtype=float), cp)),
                  SITE_CALL if path in ("single", "batch") else "sparseSpACE.Function:%s.eval_vectorized" % cname, "changed-after-" + path,
                  "%s: array returned by a %s evaluation was changed by later operations (ops %s): now %s, reported %s" % (cname, path, ops, obj, cp))
    if not mismatch:
        done = False
        with ctx.guard("B.cache.consistent", "sparseSpACE.Function:Function.get_f_dict_points", "raises"):
            keys, vals = f.get_f_dict_points(), f.get_f_dict_values()
            done = True
        if done:
            bad = []
            for k, v in zip(keys, vals):
                exp = oracle(k)
                v = np.atleast_1d(np.asarray(v, dtype=float)).reshape(-1)
                if v.shape != exp.shape or not close(v, exp, VAL_REL, VAL_ABS):
                    bad.append((k, v, exp))
            ctx.check("B.cache.consistent", len(keys) == len(vals) and not bad, SITE_CALL, "cached-value-" + state(),
                      "%s (ops %s): cached entries that differ from eval: %s" % (cname, ops, bad[:2]))
    return evaluated


def seq_case(ctx, cfg, ops, seed):
    nontrivial = any(o in "SRLBDUVN" for o in ops)
    ctx.case({"kind": "seq", "cfg": cfg["name"], "ops": ops, "seed": seed}, nontrivial=nontrivial)
    run_seq(ctx, cfg, ops, seed)


# ----------------------------------------------------------------------------------------------------------------
# part 2: integrals
# ----------------------------------------------------------------------------------------------------------------
_GL = {}


def _gl(n):
    if n not in _GL:
        _GL[n] = np.polynomial.legendre.leggauss(n)
    return _GL[n]


def _panel_nodes(a, b, cuts, n, m):
    """Gauss-Legendre nodes/weights on [a,b]: every piece between consecutive cuts is divided into m equal panels of n nodes."""
    x0, w0 = _gl(n)
    pts = [a] + sorted(c for c in cuts if a < c < b) + [b]
    xs, ws = [], []
    for l, r in zip(pts[:-1], pts[1:]):
        for j in range(m):
            lo = l + (r - l) * j / m
            hi = l + (r - l) * (j + 1) / m if j < m - 1 else r
            xs.append(0.5 * (hi - lo) * x0 + 0.5 * (hi + lo))
            ws.append(0.5 * (hi - lo) * w0)
    return np.concatenate(xs), np.concatenate(ws)


def nquad(fun, start, end, breaks, n, m):
    """Nested Gauss-Legendre quadrature of fun over the box (n nodes on each of m equal sub-panels of every piece between
    the break points of each dimension); returns (integral of fun, integral of |fun|) as 1-D arrays.
    Dimension 0 is the outermost integral; breaks(k, prefix) may depend on the outer coordinates."""
    d = len(start)
    axis = getattr(breaks, "axis", None)
    if axis is not None:       # break points independent of the other coordinates: plain tensor rule
        nodes = [_panel_nodes(start[k], end[k], axis[k], n, m) for k in range(d)]
        W = nodes[0][1]
        for k in range(1, d):
            W = np.multiply.outer(W, nodes[k][1])
        W = W.ravel()
        vals = np.array([np.atleast_1d(np.asarray(fun(p), dtype=float)).reshape(-1)
                         for p in itertools.product(*[[float(x) for x in nodes[k][0]] for k in range(d)])])
        return W @ vals, W @ np.abs(vals)

    def rec(k, prefix):
        if k == d:
            v = np.atleast_1d(np.asarray(fun(tuple(prefix)), dtype=float)).reshape(-1)
            return v, np.abs(v)
        xs, ws = _panel_nodes(start[k], end[k], breaks(k, prefix), n, m)
        tot = ta = 0.0
        for xi, wi in zip(xs, ws):
            v, av = rec(k + 1, prefix + [float(xi)])
            tot = tot + wi * v
            ta = ta + wi * av
        return tot, ta
    return rec(0, [])


def reference_integral(fun, start, end, breaks):
    """Raise order / panel count until two successive rules agree to 1e-11 of Q(|f|); returns (Q, Q(|f|), |Q - Q_previous|)."""
    d = len(start)
    levels = [(4, 1), (7, 1), (10, 1), (14, 1), (20, 1), (14, 3)] + ([(16, 6), (20, 12)] if d <= 2 else [(12, 5)])
    prev = None
    for (n, m) in levels:
        q, qa = nquad(fun, start, end, breaks, n, m)
        if prev is not None:
            err = float(np.max(np.abs(q - prev)))
            scale = float(np.max(qa))
            if err <= 1e-11 * scale:
                return q, qa, err
        prev = q
    return q, qa, err


def random_box(rng, lo, hi, specials):
    start, end = [], []
    wmax = 1.5 if len(lo) >= 3 else 1e9       # keeps the 3-D oracle cheap
    for k in range(len(lo)):
        w = hi[k] - lo[k]
        while True:
            cand = [rng.uniform(lo[k], hi[k]), rng.uniform(lo[k], hi[k])]
            r = rng.random()
            if specials[k] and r < 0.15:
                cand[0] = float(rng.choice(specials[k]))      # edge exactly on a kink
            elif r < 0.25:
                cand[0] = lo[k]
            elif r < 0.35:
                cand[1] = hi[k]
            s, e = min(cand), max(cand)
            if 0.08 * w <= e - s <= wmax and lo[k] <= s and e <= hi[k]:
                break
        start.append(float(s))
        end.append(float(e))
    return start, end


def run_int(ctx, cfg, start, end):
    spec = cfg["integral"]
    with quiet():
        f = cfg["make"]()
        ref = cfg["make"]()
    cname = type(f).__name__
    d = cfg["d"]
    site = "sparseSpACE.Function:%s.getAnalyticSolutionIntegral" % cname
    tag = ("/" + cfg["tag"]) if cfg["tag"] else ""
    dcl = "d1" if d == 1 else "d>=2"
    done = False
    other = cfg.get("_sib_int")
    if other is None:
        cand = [c for c in configs() if c["name"] != cfg["name"] and c["d"] == d and c["integral"] is not None
                and c["name"].split("/")[0].split("(")[0] == cfg["name"].split("/")[0].split("(")[0]]
        other = cfg["_sib_int"] = cand[0] if cand else False
    if other and (spec["mode"] == "analytic" or d <= 2):
        # a differently parameterised instance of the same class answers the same box first; it must not influence f
        try:
            with quiet():
                other["make"]().getAnalyticSolutionIntegral(list(start), list(end))
        except Exception:
            pass
    with ctx.guard("B.int.returns", site, "raises-" + dcl + tag):
        with quiet():
            val = f.getAnalyticSolutionIntegral(list(start), list(end))
        done = True
    if not done:
        return
    if not ctx.check("B.int.returns", val is not None, site, "returns-none", "%s.getAnalyticSolutionIntegral(%s, %s) returned None" % (cname, start, end)):
        return
    if spec["mode"] == "analytic" or d <= 2:
        val_copy = np.array(val, dtype=float, copy=True)
        rngi = random.Random("%s|%s|%s" % (cfg["name"], start, end))
        pts = [tuple(rngi.uniform(s_, e_) for s_, e_ in zip(start, end)) for _ in range(3)]
        done = False
        with ctx.guard("B.int.idempotent", site, "raises-second-call-" + dcl + tag):
            with quiet():
                f(pts[0])
                f(pts)
                val2 = f.getAnalyticSolutionIntegral(list(start), list(end))
            done = True
        if done:
            same = val2 is not None and np.shape(val2) == np.shape(val_copy) and close(val2, val_copy, 1e-13, 0.0)
            ctx.check("B.int.idempotent", same, site, "second-call-" + dcl + tag, "%s over %s..%s: first %s, second %s" % (cfg["name"], start, end, val_copy, val2))
            ctx.check("B.int.idempotent", bool(np.array_equal(np.asarray(val, dtype=float), val_copy)), site, "first-result-changed-" + dcl + tag,
                      "%s: the object returned first changed from %s to %s" % (cfg["name"], val_copy, val))
    weight = spec["weight"]

    def integrand(x):
        with quiet():
            v = np.atleast_1d(np.asarray(ref.eval(x), dtype=float)).reshape(-1)
        return v * weight(x) if weight else v
    if any(float(e_) == float(s_) for s_, e_ in zip(start, end)):
        # degenerate box: the integral of any function over it is 0
        val = np.atleast_1d(np.asarray(val, dtype=float)).reshape(-1)
        ctx.check("B.int.analytic" if spec["mode"] == "analytic" else "B.int.numeric", bool(np.all(np.abs(val) <= 1e-12)), site, "value-degenerate-box-" + dcl + tag,
                  "%s over the degenerate box %s..%s: library %s, the integral is 0" % (cfg["name"], start, end, val))
        return
    q, qa, err = reference_integral(integrand, start, end, spec["breaks"])
    scale = float(np.max(qa))
    if err > 1e-7 * scale:
        ctx.note("oracle not converged (err %.2e, scale %.2e): %s %s %s -- case skipped" % (err, scale, cfg["name"], start, end))
        return
    val = np.atleast_1d(np.asarray(val, dtype=float)).reshape(-1)
    clause = "B.int.analytic" if spec["mode"] == "analytic" else "B.int.numeric"
    # integrals that the library itself computes by adaptive scipy quadrature (dblquad/tplquad, some across a jump of the integrand) are only
    # as accurate as scipy's default tolerances allow; the property promises agreement with a numerically computed integral, so only a
    # gross disagreement (5e-3 relative) is a violation there.  Closed-form integrals are held to 1e-8.
    rel = 1e-8 if spec["mode"] == "analytic" else 5e-3
    tol = rel * scale + 10.0 * err + 1e-300
    # a scalar result is accepted for a vector-valued function when it equals every component (GenzDiscontinious2 returns 0.0 for empty boxes)
    ok = (val.shape == q.shape or val.shape == (1,)) and bool(np.all(np.abs(val - q) <= tol))
    ctx.check(clause, ok, site, "value-" + dcl + tag,
              "%s over %s..%s: library %s, quadrature of eval %s (oracle err %.1e, tol %.1e)" % (cfg["name"], start, end, val, q, err, tol))


def int_case(ctx, cfg, start, end):
    vol = float(np.prod(np.array(end) - np.array(start)))
    ctx.case({"kind": "int", "cfg": cfg["name"], "start": start, "end": end}, nontrivial=vol > 0)
    run_int(ctx, cfg, start, end)


def multi_dimension_case(ctx, name, seed):
    """history: ONE object of a class that is constructed without a dimension serves points of several dimensions in turn (2, 3, 2, 4, 1); single-point, batch
    and vectorised values equal those of a fresh object, and the analytic integral still equals the quadrature of the point evaluation in each dimension
    (missed seed C12_8: a dimension-dependent normalisation stored on first use)"""
    import sparseSpACE.Function as F
    make = {"FunctionExpVar": lambda: F.FunctionExpVar(), "ConstantValue": lambda: F.ConstantValue(2.5)}[name]
    rng = random.Random("%s|multidim|%s" % (seed, name))
    f = make()
    site = "sparseSpACE.Function:%s.eval" % name
    for k, d in enumerate((2, 3, 2, 4, 1)):
        pts = [tuple(rng.uniform(0.05, 0.95) for _ in range(d)) for _ in range(4)]
        fresh = make()
        with ctx.guard("B.eval.consistent", site, "multi-dimension-raises"):
            with quiet():
                want = [np.asarray(fresh.eval(p), dtype=float).reshape(-1) for p in pts]
                got_single = [np.asarray(f(p), dtype=float).reshape(-1) for p in pts[:2]]
                got_batch = np.asarray(f(list(pts)), dtype=float)
                got_vec = np.asarray(f.eval_vectorized(np.array(pts)), dtype=float).reshape(len(pts), -1)
            ok = all(np.allclose(g, w, rtol=1e-12, atol=0) for g, w in zip(got_single, want)) and \
                all(np.allclose(got_batch[i], want[i], rtol=1e-12, atol=0) and np.allclose(got_vec[i], want[i], rtol=1e-12, atol=0) for i in range(len(pts)))
            ctx.check("B.eval.consistent", ok, site, "one-object-several-dimensions", "%s used in dimension %d after other dimensions: values %s, a fresh object gives %s"
                      % (name, d, got_batch[:2].tolist(), [w.tolist() for w in want[:2]]))
            if k == 1:
                f.reset_dictionary()
        start, end = [0.1] * d, [0.9] * d
        with ctx.guard("B.int.analytic", "sparseSpACE.Function:%s.getAnalyticSolutionIntegral" % name, "multi-dimension-raises"):
            with quiet():
                ana = float(np.asarray(f.getAnalyticSolutionIntegral(list(start), list(end)), dtype=float).reshape(-1)[0])
            xs, ws = np.polynomial.legendre.leggauss(12)
            total = 0.0
            for idx in itertools.product(range(12), repeat=d):
                p = tuple(start[j] + 0.4 * (xs[i] + 1.0) for j, i in enumerate(idx))
                w = float(np.prod([ws[i] * 0.4 for i in idx]))
                total += w * float(np.asarray(f.eval(p), dtype=float).reshape(-1)[0])
            ctx.check("B.int.analytic", abs(ana - total) <= 1e-6 * max(1.0, abs(total)), "sparseSpACE.Function:%s.getAnalyticSolutionIntegral" % name,
                      "one-object-several-dimensions", "%s in dimension %d (object used in other dimensions before): analytic %r, quadrature of eval %r" % (name, d, ana, total))


# ----------------------------------------------------------------------------------------------------------------
def run(ctx):
    C = configs()
    for name in ("FunctionExpVar", "ConstantValue"):
        ctx.case({"kind": "multidim", "cls": name}, nontrivial=True)
        multi_dimension_case(ctx, name, ctx.seed)
    core = [c for c in C if c["core"]]
    quick = ctx.quick()
    seed = ctx.seed
    ctx.exhaustive = True
    ctx.note("%d configurations of %d classes; %d core" % (len(C), len(set(type(c["make"]()).__name__ for c in C)), len(core)))

    # ---- integrals first (fixed cost) ------------------------------------------------------------------------
    nbox = 3 if quick else 25
    for cfg in C:
        spec = cfg["integral"]
        if spec is None:
            continue
        rng = random.Random("%s|int|%s" % (seed, cfg["name"]))
        if spec["box"] == "unit":
            boxes = [([0.0] * cfg["d"], [1.0] * cfg["d"])]
        else:
            n = nbox if cfg["d"] < 3 or not quick else 2
            if spec["nmax"] is not None:
                n = min(n, spec["nmax"] if quick else max(2, 4 * spec["nmax"]))
            if quick and spec["nmax"] == 0:
                continue
            boxes = [random_box(rng, spec["lo"], spec["hi"], cfg["special"]) for _ in range(n)]
            if spec["mode"] == "analytic":
                # a box of zero extent in one dimension (the degenerate member of "every box"): the integral is 0 (missed seed C12_a: volume / extent)
                s0, e0 = random_box(rng, spec["lo"], spec["hi"], cfg["special"])
                k0 = rng.randrange(cfg["d"])
                e0[k0] = s0[k0]
                boxes.append((s0, e0))
        for (s, e) in boxes:
            if ctx.out_of_time(0.45):
                ctx.note("integral part cut short by the time budget")
                break
            int_case(ctx, cfg, s, e)

    # ---- histories --------------------------------------------------------------------------------------------
    def all_seqs(L):
        return ("".join(t) for t in itertools.product(OPS, repeat=L))

    plan = []   # (configs, length)
    if quick:
        plan = [(C, 1), (C, 2), (core, 3)]
    else:
        plan = [(C, 1), (C, 2), (C, 3), (core, 4)]
    for cfgs, L in plan:
        for ops in all_seqs(L):
            if ctx.out_of_time(0.85):
                ctx.exhaustive = False
                break
            for cfg in cfgs:
                seq_case(ctx, cfg, ops, seed)
    if not ctx.exhaustive:
        ctx.note("exhaustive history enumeration cut short by the time budget")
    # seeded samples of longer histories
    rng = random.Random("%s|sample" % seed)
    nsample = 12 if quick else 400
    for cfg in C:
        for i in range(nsample):
            if ctx.out_of_time(0.97):
                return
            L = rng.choice([3, 4, 5, 5]) if quick else 5
            ops = "".join(rng.choice(OPS) for _ in range(L))
            seq_case(ctx, cfg, ops, seed)


def replay(ctx, case):
    if case.get("kind") == "multidim":
        return multi_dimension_case(ctx, case["cls"], ctx.seed)
    cfg = config_by_name(case["cfg"])
    if case["kind"] == "seq":
        run_seq(ctx, cfg, case["ops"], case["seed"])
    else:
        run_int(ctx, cfg, case["start"], case["end"])
