"""C01 bounded stand-in: runtime contracts on the real CombiScheme over a bounded universe."""
import itertools
from bounded.api import quiet

BOUND = ("d<=4, 0<=lmin<=lmax<=lmin+4 initialisation (all configurations); all update sequences of length<=4 (quick: d<=2, thorough: d<=3, "
         "length<=5) over every level vector of the bounding box [lmin-1, lmax+2]^d (refinable or not); seeded random sequences of "
         "length 40 for d<=6; inclusion-exclusion clause evaluated for every l in the bounding box")
BOUND += "; fault / magnitude additions: refused initialisation requests (invalid level range) on a used object after every non-trivial sequence"
RULE = BOUND + "; a case is one (d,lmin,lmax,request sequence); non-trivial = at least one request was refinable"
CLAUSES = {
    "B.inv.downward_closed": "every backward neighbour above lmin of a member of old|active is in old|active (and, stronger, in old)",
    "B.inv.disjoint": "old and active index sets are disjoint",
    "B.inv.no_forward_active": "no active index has a forward neighbour in old|active",
    "B.inv.entries": "all members have length dim and entries >= lmin",
    "B.scheme.inside": "every returned component grid (coefficient != 0) lies inside the index set, each level vector once",
    "B.scheme.incl_excl": "for every l>=lmin in the box: sum of coefficients of returned grids dominating l == [l in index set]",
    "B.scheme.sum_one": "coefficients sum to 1",
    "B.update.effect": "update on a non-active vector changes nothing and returns None; on an active one moves it to old and adds exactly the admissible forward neighbours; returns their dimensions",
    "B.init.closed_form": "non-adaptive closed-form scheme == freshly initialised adaptive scheme as a multiset of (levelvector, coefficient)",
    "B.init.fresh": "init_adaptive_combi_scheme on a USED object (after updates, after init_full_grid, same or different levels) establishes exactly the state of a fresh object",
    "B.init.refusal": "an initialisation request with an invalid level range (lmax < lmin or lmin < 0) raises AssertionError and leaves a used object exactly as it was",
    "B.scheme.ownership": "component grids returned by getCombiScheme are fresh objects: mutating a returned scheme changes neither a later getCombiScheme of the same object nor of another CombiScheme",
    "B.api.queries": "is_refinable / in_index_set / is_old_index / has_forward_neighbour / get_index_set / get_active_indices agree with the sets",
}


def scheme_pairs(scheme):
    return sorted((tuple(int(x) for x in g.levelvector), g.coefficient) for g in scheme)


def check_state(ctx, cs, d, lmin, box_hi, site):
    old, act = set(cs.old_index_set), set(cs.active_index_set)
    I = old | act
    ctx.check("B.inv.disjoint", not (old & act), site, "overlap", "old&active=%s" % sorted(old & act))
    ok_entries = all(len(v) == d and all(x >= lmin for x in v) for v in I)
    ctx.check("B.inv.entries", ok_entries, site, "entries")
    bad = [(v, i) for v in I for i in range(d) if v[i] > lmin and tuple(v[:i] + (v[i] - 1,) + v[i + 1:]) not in old]
    ctx.check("B.inv.downward_closed", not bad, site, "backward", "missing backward neighbours (must be old): %s" % bad[:3])
    badf = [(v, i) for v in act for i in range(d) if tuple(v[:i] + (v[i] + 1,) + v[i + 1:]) in I]
    ctx.check("B.inv.no_forward_active", not badf, site, "forward", "active with forward neighbour: %s" % badf[:3])
    with quiet():
        scheme = cs.getCombiScheme(do_print=False)
    pairs = [(tuple(int(x) for x in g.levelvector), g.coefficient) for g in scheme]
    keys = [p[0] for p in pairs]
    ctx.check("B.scheme.inside", len(set(keys)) == len(keys) and all(k in I for k in keys) and all(c != 0 for _, c in pairs), site, "inside",
              "grids outside index set or duplicated: %s" % [k for k in keys if k not in I][:3])
    ctx.check("B.scheme.sum_one", sum(c for _, c in pairs) == 1, site, "sum", "sum=%s" % sum(c for _, c in pairs))
    bad = []
    for l in itertools.product(range(lmin, box_hi + 1), repeat=d):
        s = sum(c for k, c in pairs if all(k[i] >= l[i] for i in range(d)))
        if s != (1 if l in I else 0):
            bad.append((l, s))
    ctx.check("B.scheme.incl_excl", not bad, site, "dominating", "dominating sums wrong at %s" % bad[:3])
    # query API
    okq = cs.get_index_set() == I and cs.get_active_indices() == act
    for v in itertools.islice(itertools.product(range(lmin, box_hi + 1), repeat=d), 200):
        okq = okq and cs.is_refinable(list(v)) == (v in act) and cs.in_index_set(list(v)) == (v in I) and cs.is_old_index(list(v)) == (v in old)
        okq = okq and cs.has_forward_neighbour(list(v)) == any(tuple(v[:i] + (v[i] + 1,) + v[i + 1:]) in I for i in range(d))
    ctx.check("B.api.queries", okq, site, "queries")


def do_update(ctx, cs, d, lmin, v):
    old, act = set(cs.old_index_set), set(cs.active_index_set)
    r = cs.update_adaptive_combi(list(v))
    nold, nact = set(cs.old_index_set), set(cs.active_index_set)
    site = "sparseSpACE.combiScheme:CombiScheme.update_adaptive_combi"
    if v not in act:
        ctx.check("B.update.effect", r is None and nold == old and nact == act, site, "nonactive", "state changed by non-refinable request %s" % (v,))
        return False
    adm = []
    o2 = old | {v}
    for i in range(d):
        w = v[:i] + (v[i] + 1,) + v[i + 1:]
        if all((w[j] - 1 < lmin) or (w[:j] + (w[j] - 1,) + w[j + 1:] in o2) for j in range(d)):
            adm.append(i)
    exp_act = (act - {v}) | {v[:i] + (v[i] + 1,) + v[i + 1:] for i in adm}
    ctx.check("B.update.effect", r == adm and nold == o2 and nact == exp_act, site, "active",
              "request %s: returned %s expected %s; active %s expected %s" % (v, r, adm, sorted(nact), sorted(exp_act)))
    return True


def state_of(cs):
    return (set(cs.old_index_set), set(cs.active_index_set), cs.lmax_adaptive, cs.lmin, cs.lmax, cs.initialized_adaptive)


def check_reinit(ctx, cs, d, lmin, lmax):
    """history clauses: re-initialisation of a used object, ownership of returned schemes"""
    from sparseSpACE.combiScheme import CombiScheme
    site = "sparseSpACE.combiScheme:CombiScheme.init_adaptive_combi_scheme"
    fresh = CombiScheme(d)
    fresh.init_adaptive_combi_scheme(lmax, lmin)
    # requests the function refuses (invalid level range) leave the used object as it was: its state stays the valid scheme it held
    before = state_of(cs)
    for (rmax, rmin) in ((lmin - 1, lmin), (lmax, -1), (0, lmax + 1), (-1, -2)):
        if rmax >= rmin >= 0:
            continue
        for fn in (cs.init_adaptive_combi_scheme, cs.init_full_grid):
            try:
                fn(rmax, rmin)
                refused = False
            except AssertionError:
                refused = True
            ctx.check("B.init.refusal", refused and state_of(cs) == before, site, "refused-request",
                      "%s(lmax=%d, lmin=%d) on a used scheme: refused=%s, state before %s, after %s" % (fn.__name__, rmax, rmin, refused, before[2:], state_of(cs)[2:]))
            if state_of(cs) != before:
                return
    cs.init_adaptive_combi_scheme(lmax, lmin)                      # same levels on the used object
    ctx.check("B.init.fresh", state_of(cs) == state_of(fresh), site, "reinit-same-levels", "re-initialised %s vs fresh %s" % (state_of(cs), state_of(fresh)))
    cs.init_full_grid(lmax, lmin)
    cs.init_adaptive_combi_scheme(lmax, lmin)                      # after the plotting-only full grid
    ctx.check("B.init.fresh", state_of(cs) == state_of(fresh), site, "reinit-after-full-grid", "re-initialised %s vs fresh %s" % (state_of(cs), state_of(fresh)))
    # ownership of the returned component grids (adaptive and closed-form branch)
    site2 = "sparseSpACE.combiScheme:CombiScheme.getCombiScheme"
    for make in (lambda: cs, lambda: CombiScheme(d)):
        obj = make()
        with quiet():
            first = obj.getCombiScheme(lmin, lmax, do_print=False)
        want = scheme_pairs(first)
        for g in first:
            g.coefficient = 12345
        with quiet():
            again = scheme_pairs(obj.getCombiScheme(lmin, lmax, do_print=False))
            other = CombiScheme(d)
            if obj.initialized_adaptive:
                other.init_adaptive_combi_scheme(lmax, lmin)
            other_pairs = scheme_pairs(other.getCombiScheme(lmin, lmax, do_print=False))
        ctx.check("B.scheme.ownership", again == want and other_pairs == want, site2, "adaptive" if obj.initialized_adaptive else "closed-form",
                  "after mutating a returned scheme: same object %s, other object %s, expected %s" % (again[:3], other_pairs[:3], want[:3]))


def run_sequence(ctx, d, lmin, lmax, seq, check_every=True):
    from sparseSpACE.combiScheme import CombiScheme
    cs = CombiScheme(d)
    cs.init_adaptive_combi_scheme(lmax, lmin)
    hi = lmax + len(seq) + 1
    nontrivial = False
    site = "sparseSpACE.combiScheme:CombiScheme"
    for n, v in enumerate(seq):
        nontrivial |= do_update(ctx, cs, d, lmin, tuple(v))
        if check_every or n == len(seq) - 1:
            check_state(ctx, cs, d, lmin, min(hi, lmax + 3), site)
    if nontrivial:
        check_reinit(ctx, cs, d, lmin, lmax)
    return nontrivial


def check_init(ctx, d, lmin, lmax):
    from sparseSpACE.combiScheme import CombiScheme
    ctx.case({"kind": "init", "d": d, "lmin": lmin, "lmax": lmax})
    cs = CombiScheme(d)
    cs.init_adaptive_combi_scheme(lmax, lmin)
    check_state(ctx, cs, d, lmin, lmax + 1, "sparseSpACE.combiScheme:CombiScheme.init_adaptive_combi_scheme")
    if lmin >= 1 or True:
        with quiet():
            a = scheme_pairs(cs.getCombiScheme(do_print=False))
            b = scheme_pairs(CombiScheme(d).getCombiScheme(lmin, lmax, do_print=False))
        ctx.check("B.init.closed_form", len(a) == len(b) and all(x[0] == y[0] and abs(x[1] - y[1]) < 1e-9 for x, y in zip(a, b)),
                  "sparseSpACE.combiScheme:CombiScheme.getCombiScheme", "closed_form", "adaptive %s vs closed form %s" % (a[:4], b[:4]))


def run(ctx):
    dmax = 4 if ctx.quick() else 5
    for d in range(1, dmax + 1):
        for lmin in range(0, 3):
            for lmax in range(lmin, lmin + (4 if d <= 3 else 3) + 1):
                check_init(ctx, d, lmin, lmax)
    # exhaustive sequences
    ctx.exhaustive = True
    # (3, 1, 3, 3): three dimensions with lmax = lmin + 2 -- the smallest configuration with INTERIOR refinements (a level vector is added without the
    # highest level reached so far growing), needed by re-initialisation shortcuts keyed on "the scheme has not grown" (missed seed C01_7)
    confs = [(1, 1, 2, 4), (2, 1, 2, 3), (2, 0, 1, 3), (2, 2, 3, 3), (3, 1, 3, 3)] if ctx.quick() else \
            [(1, 0, 2, 5), (2, 1, 2, 4), (2, 0, 2, 3), (2, 1, 3, 3), (3, 1, 2, 3), (3, 0, 1, 3), (3, 1, 3, 3)]
    for d, lmin, lmax, L in confs:
        # only vectors that can ever matter: the box [lmin-1, lmax+L]^d ; restrict requests to vectors with |v|_1 <= lmax+(d-1)*lmin+L
        box = list(itertools.product(range(max(lmin - 1, 0), lmax + 2), repeat=d))
        def rec(prefix):
            if ctx.out_of_time(0.7):
                ctx.exhaustive = False
                return
            if prefix:
                ctx.case({"kind": "seq", "d": d, "lmin": lmin, "lmax": lmax, "seq": [list(v) for v in prefix]}, nontrivial=True)
                run_sequence(ctx, d, lmin, lmax, prefix, check_every=False)
            if len(prefix) < L:
                # branch only over requests that are currently active plus one non-active representative per step
                from sparseSpACE.combiScheme import CombiScheme
                cs = CombiScheme(d)
                cs.init_adaptive_combi_scheme(lmax, lmin)
                for v in prefix:
                    cs.update_adaptive_combi(list(v))
                act = sorted(cs.active_index_set)
                nonact = [v for v in box if v not in cs.active_index_set][:2]
                for v in act + nonact:
                    rec(prefix + [tuple(v)])
        rec([])
    # random long sequences
    n = 6 if ctx.quick() else 60
    for k in range(n):
        if ctx.out_of_time(0.95):
            break
        d = ctx.rng.randint(1, 6 if not ctx.quick() else 4)
        lmin = ctx.rng.randint(0, 2)
        lmax = lmin + ctx.rng.randint(0, 2)
        from sparseSpACE.combiScheme import CombiScheme
        cs = CombiScheme(d)
        cs.init_adaptive_combi_scheme(lmax, lmin)
        seq = []
        for step in range(12 if d >= 4 else 30):
            if ctx.rng.random() < 0.8 and cs.active_index_set:
                v = ctx.rng.choice(sorted(cs.active_index_set))
            else:
                v = tuple(ctx.rng.randint(lmin, lmax + 3) for _ in range(d))
            seq.append(list(v))
            cs.update_adaptive_combi(list(v))
        ctx.case({"kind": "seq", "d": d, "lmin": lmin, "lmax": lmax, "seq": seq})
        run_sequence(ctx, d, lmin, lmax, [tuple(v) for v in seq], check_every=False)


def replay(ctx, case):
    if case["kind"] == "init":
        check_init(ctx, case["d"], case["lmin"], case["lmax"])
    else:
        run_sequence(ctx, case["d"], case["lmin"], case["lmax"], [tuple(v) for v in case["seq"]], check_every=True)
