"""C10 bounded stand-in: hierarchical bases interpolate (surpluses reproduce every nodal value).

Real code under test: HierarchizationLSG, BasisGrid.integrate/interpolate (LagrangeGrid, BSplineGrid), GlobalBasisGrid.integrate/
interpolate (GlobalLagrangeGrid, GlobalBSplineGrid) and the basis classes they instantiate.  Oracle written here: the nodal table
itself, analytic tensor polynomials, central differences and composite Gauss quadrature of the basis *values*.
"""
import itertools
import math
import random

from bounded.api import quiet

SITE_HIER = "sparseSpACE.Hierarchization:HierarchizationLSG.__call__"
SITE_GI = "sparseSpACE.Grid:GlobalBasisGrid.interpolate"
SITE_LI = "sparseSpACE.Grid:BasisGrid.interpolate"
SITE_LAGR = "sparseSpACE.BasisFunctions:LagrangeBasis.__call__"
SITE_LL1D = "sparseSpACE.Grid:LagrangeGrid1D.compute_1D_quad_weights"
SITE_LB1D = "sparseSpACE.Grid:BSplineGrid1D.compute_1D_quad_weights"
SITE_GL = "sparseSpACE.Grid:GlobalLagrangeGrid.compute_1D_quad_weights"
SITE_GB = "sparseSpACE.Grid:GlobalBSplineGrid.compute_1D_quad_weights"

BOUND = ("global grids GlobalLagrangeGrid (p in {1,2,3,5}) and GlobalBSplineGrid (p in {1,3,5}; the class asserts odd p) on dyadic "
         "refinement-tree grids per dimension: d=1 every tree of depth<=3 plus seeded trees of depth<=6 with up to 40 points (>=15 points: QR "
         "branch) and the complete grids of level 1..5; d=2 pairs of seeded trees (incl. >=15 points in one dimension); d=3 trees of depth<=2; "
         "local grids LagrangeGrid / BSplineGrid on areas of the extend-split kind (whole domain and dyadic sub-boxes), level vectors with "
         "entries 0..4 (d=1: 0..5, i.e. up to 33 points), d=2 entries<=3 plus (4,1), d=3 entries<=2; boundary flag True/False; modified_basis "
         "only for B-splines with boundary=False (LagrangeGrid1D refuses it with `assert False`, GlobalLagrangeGrid is not in the property's "
         "quantifier with it, see notes); domains [0,1]^d and [-1,3]x[0.5,2.5]x[-6,-3]; nodal data: seeded uniform(-1,1) tables with 1..3 "
         "components; polynomial clause only for boundary=True and only up to the degree the hierarchical construction can represent: "
         "q_d <= min(p, n_d-1, cap_d), cap_d = (smallest cell depth)+1 for Lagrange (a depth-k cell has k+2 ancestor knots), 2^(deepest "
         "complete level) for B-splines (equal to n_d-1 on the uniform grids of the local classes); basis clauses for every distinct 1-D "
         "basis object of every grid built")
BOUND += "; fault / magnitude additions: nodal tables of python ints / numpy int64 for half of the data seeds; interpolate_grid at 3-4 coordinates per dimension against interpolate"
RULE = BOUND + ("; a case is one (class, p, flags, domain, per-dimension level sequences or area+level vector, data seed); non-trivial = "
                "the grid has at least two points in some dimension")
BUDGET = {"quick": 60.0, "thorough": 840.0}

CLAUSES = {
    "B.interp.returns": "building the grid, integrate() (which hierarchises) and interpolate() return normally for a valid configuration",
    "B.interp.identity": "interpolate(grid points) after integrate(table function) returns the table: |u(x_i)-v_i| <= 1e-9 (1+max|v|) for all "
                         "grid points and all components",
    "B.interp.grid": "interpolate_grid(per-dimension coordinate lists) returns normally and equals interpolate() at the product points (first dimension slowest), 1e-9 (1+max|v|)",
    "B.hier.collocation": "HierarchizationLSG(grid)(values, numPoints, grid) returns surpluses s with sum_j s_j prod_d phi_{j_d}(x_{i_d}) == v_i "
                          "(own tensor evaluation of the grid's basis objects), 1e-9",
    "B.hist.reuse": "history: the same grid object given a sequence of different trees / areas (several of equal size, below and above the "
                    "15-point QR threshold, there and back), one HierarchizationLSG operator shared by all grids of the run, and one Function "
                    "object shared by all steps still satisfy identity, collocation and polynomial reproduction at every step (checked against "
                    "the table / f.eval, not against earlier answers); a local grid re-pointed to an earlier area reproduces that area's table",
    "B.hist.stable": "interpolate() called twice returns identical values; arrays returned earlier by interpolate() and the surpluses stored by "
                     "an earlier integrate() (kept by reference) still equal the copies taken at that time after later integrate/interpolate calls",
    "B.lagrange.kronecker": "every Lagrange-type basis object is 1 (1e-12) at its own knot and 0 (exactly) at its other knots (modified "
                            "bases: at the other knots strictly inside the domain)",
    "B.poly.reproduction": "tensor polynomials with per-dimension degree q_d (see bound) are reproduced at arbitrary points of the "
                           "domain/area incl. its corners, 1e-8 (1+max|f|)",
    "B.basis.derivative": "get_first_derivative / get_second_derivative agree with central differences of the basis values / of the first "
                          "derivative at points inside knot intervals (relative 1e-5)",
    "B.basis.integral": "the 1-D quadrature weight stored for a basis function equals the integral of its values over the domain/area "
                        "(composite 12-point Gauss between all knots), 1e-10 (b-a)",
}


# ----------------------------------------------------------------------------------------------------------------
# trees (oracle side)
def all_trees(depth):
    if depth == 0:
        return [None]
    sub = all_trees(depth - 1)
    return [None] + [(l, r) for l in sub for r in sub]


def levels_of(tree):
    out = []

    def rec(t, lvl):
        if t is None:
            return
        rec(t[0], lvl + 1)
        out.append(lvl)
        rec(t[1], lvl + 1)
    rec(tree, 1)
    return [0] + out + [0]


def random_tree(rng, depth, p):
    if depth == 0 or rng.random() > p:
        return None
    return (random_tree(rng, depth - 1, p), random_tree(rng, depth - 1, p))


def complete_levels(m):
    n = 2 ** m
    out = []
    for i in range(n + 1):
        if i == 0 or i == n:
            out.append(0)
        else:
            l, j = m, i
            while j % 2 == 0:
                j //= 2
                l -= 1
            out.append(l)
    return out


def grid_from_levels(a, b, levels):
    n = len(levels)
    pos = [None] * n
    pos[0], pos[-1] = a, b

    def rec(i, j, lvl):
        if j - i <= 1:
            return
        inner = levels[i + 1:j]
        k = i + 1 + inner.index(lvl)
        pos[k] = (pos[i] + pos[j]) / 2
        rec(i, k, lvl + 1)
        rec(k, j, lvl + 1)
    rec(0, n - 1, 1)
    return pos


def lagrange_cap(levels):
    return min(max(levels[i], levels[i + 1]) for i in range(len(levels) - 1)) + 1


def bspline_cap(levels):
    l = 0
    while sum(1 for v in levels if v == l + 1) == 2 ** l:
        l += 1
    return 2 ** l


DOMAIN = {"unit": ([0.0, 0.0, 0.0], [1.0, 1.0, 1.0]), "box": ([-1.0, 0.5, -6.0], [3.0, 2.5, -3.0])}


# ----------------------------------------------------------------------------------------------------------------
def table_function(table, outlen):
    from sparseSpACE.Function import Function

    class Table(Function):
        def output_length(self):
            return outlen

        def eval(self, x):
            return table[tuple(float(c) for c in x)]
    return Table()


def poly_value(x, degs, lo, hi, comp):
    v = 1.0
    for d, q in enumerate(degs):
        u = (x[d] - lo[d]) / (hi[d] - lo[d])
        v *= (u ** q) * (1.0 + 0.5 * comp) - 0.3 + 0.1 * d
    return v


def basis_list(G, kind, d):
    return list(G.basis[d]) if kind == "global" else list(G.grids[d].splines)


def weight_list(G, kind, d):
    return [float(w) for w in (G.weights[d] if kind == "global" else G.grids[d].weights)]


def wclass(case):
    c = "%s-%s" % (case["kind"], case["family"])
    if case["kind"] == "raw":
        return c
    if not case["boundary"]:
        c += "-noboundary"
        if case["kind"] == "local" and case["family"] == "bspline" and not case.get("whole", True):
            return c + "-subarea"  # same root cause with and without modified_basis
    if case["modified"]:
        c += "-modified"
    return c


def build(case, G=None):
    """returns (G, kind, lo, hi, integrate callable, interpolate callable); an existing grid object G is re-used (history cases)"""
    import numpy as np
    from sparseSpACE import Grid as GM
    from sparseSpACE.ComponentGridInfo import ComponentGridInfo
    d, p = case["d"], case["p"]
    a, b = [x[:d] for x in DOMAIN[case["domain"]]]
    if case["kind"] == "global":
        cls = GM.GlobalLagrangeGrid if case["family"] == "lagrange" else GM.GlobalBSplineGrid
        if G is None:
            G = cls(np.array(a), np.array(b), boundary=case["boundary"], modified_basis=case["modified"], p=p)
        if case.get("rel_points"):
            # explicit point positions (relative to the domain): the same points may carry different levels after a rebalancing rotation
            pts = [[a[i] + (b[i] - a[i]) * t for t in case["rel_points"][i]] for i in range(d)]
        else:
            pts = [grid_from_levels(a[i], b[i], case["levels"][i]) for i in range(d)]
        G.set_grid([list(x) for x in pts], [list(l) for l in case["levels"]])
        lv = [max(l) for l in case["levels"]]
        cg = ComponentGridInfo(lv, 1)
        return (G, "global", a, b, lambda f: G.integrate(f, lv, a, b), lambda P: G.interpolate(P, cg))
    cls = GM.LagrangeGrid if case["family"] == "lagrange" else GM.BSplineGrid
    if G is None:
        G = cls(np.array(a), np.array(b), boundary=case["boundary"], p=p, modified_basis=case["modified"])
    s, e, lv = list(case["start"]), list(case["end"]), list(case["levelvec"])
    G.setCurrentArea(s, e, lv)
    return (G, "local", s, e, lambda f: G.integrate(f, lv, s, e), lambda P: G.interpolate(P, s, e, lv))


def site_of(case, what):
    if what == "interp":
        return SITE_GI if case["kind"] == "global" else SITE_LI
    if case["kind"] == "global":
        return SITE_GL if case["family"] == "lagrange" else SITE_GB
    return SITE_LL1D if case["family"] == "lagrange" else SITE_LB1D


def stored_surplus(G, kind, case, lo, hi):
    if kind == "global":
        return G.surplus_values[tuple(max(l) for l in case["levels"])]
    return G.surplus_values[(tuple(lo), tuple(hi), tuple(case["levelvec"]))]


def grid_case(ctx, case, seen_basis=None, hist=None):
    """hist (history cases): {"G": grid object to re-use or None, "lsg": shared HierarchizationLSG or None, "f": shared Function or None,
    "tag": suffix for witness classes, "kept": list collecting (reference, copy, label)}"""
    import numpy as np
    import sparseSpACE.Grid  # noqa: must be imported before Hierarchization (circular import in the library)
    from sparseSpACE.Hierarchization import HierarchizationLSG
    hist = hist or {}
    tag = hist.get("tag", "")
    wc = wclass(case) + tag
    d, p = case["d"], case["p"]
    r = random.Random(case["seed"])
    built = None
    # configurations whose root cause is known to sit in the 1-D grid construction are reported at that site
    pub_site = site_of(case, "build") if (case["kind"] == "local" and not case["boundary"]) else site_of(case, "interp")
    with ctx.guard("B.interp.returns", site_of(case, "build"), wc + "-raises"):
        with quiet():
            built = build(case, hist.get("G"))
    if built is None:
        return
    G, kind, lo, hi, integrate, interpolate = built
    if "G" in hist:
        hist["G"] = G
    pts = [tuple(float(c) for c in P) for P in G.getPoints()]
    if not pts:
        return
    nump = [int(x) for x in G.levelToNumPoints(case["levelvec"] if kind == "local" else [0] * d)]
    outlen = case["outlen"]
    if hist.get("f") is not None:  # one Function object shared by all steps / grids: its cache must stay equal to eval
        fobj = hist["f"]
        table = {P: [float(v) for v in fobj.eval(P)] for P in pts}
    else:
        fobj = None
        mode = int(case["seed"]) % 4
        if mode == 1:      # integer-valued nodal data (labels, indicators, counts): python ints ...
            table = {P: [r.randint(-3, 3) for _ in range(outlen)] for P in pts}
        elif mode == 3:    # ... or numpy integer arrays; the surpluses of such data are not integers (missed seed C10_9: nodal array took the dtype of the values)
            table = {P: np.array([r.randint(-3, 3) for _ in range(outlen)], dtype=np.int64) for P in pts}
        else:
            table = {P: [r.uniform(-1, 1) for _ in range(outlen)] for P in pts}
    vmax = max(1.0, max(abs(v) for row in table.values() for v in row))
    clause_id = "B.hist.reuse" if tag else "B.interp.identity"
    clause_col = "B.hist.reuse" if tag else "B.hier.collocation"
    clause_poly = "B.hist.reuse" if tag else "B.poly.reproduction"
    # 1. public path: integrate (hierarchise) + interpolate at all grid points
    res = None
    with ctx.guard("B.interp.returns", pub_site, wc + "-raises"):
        with quiet():
            integrate(fobj if fobj is not None else table_function(table, outlen))
            res = interpolate(list(pts))
            res_again = np.array(interpolate(list(pts)), dtype=float)
    if res is None:
        return
    kept = [(res, np.array(res, dtype=float), "interpolate() result")]
    with ctx.guard("B.hist.stable", pub_site, wc + "/surplus-access-raises"):
        sref = stored_surplus(G, kind, case, lo, hi)
        kept.append((sref, np.array(sref, dtype=float), "surpluses of the first integrate()"))
    res = np.asarray(res)
    if res is not None:
        ok = res.shape == (len(pts), outlen)
        err = max(abs(float(res[i][j]) - table[P][j]) for i, P in enumerate(pts) for j in range(outlen)) if ok else float("inf")
        ctx.check(clause_id, ok and err <= 1e-9 * (1 + vmax), site_of(case, "interp"), wc,
                  "max |interpolate(x_i) - v_i| = %.3e over %d grid points (%s points per dimension)" % (err, len(pts), nump))
        ctx.check("B.hist.stable", ok and np.array_equal(np.asarray(res, dtype=float), res_again), site_of(case, "interp"), wc + "/second-call",
                  "interpolate() called twice on the same points differs by %.3e" % (float(np.max(np.abs(np.asarray(res, dtype=float) - res_again))) if ok else float("nan")))
    # 1b. the tensor-grid form of the interpolation (interpolate_grid: per-dimension coordinate lists) must agree with interpolate() at the product points:
    #     a grid coordinate at each end, one in the middle and one off-grid value per dimension (defect fixed by a7f0c8d: the method read a non-existent
    #     attribute and applied each per-dimension factor once per output component)
    if res is not None and res.shape == (len(pts), outlen):
        from sparseSpACE.ComponentGridInfo import ComponentGridInfo
        cds = [[float(x) for x in G.get_coordinates_dim(i)] for i in range(d)]
        if all(len(c) >= 1 for c in cds):
            X = []
            for i in range(d):
                c = cds[i]
                pick = sorted(set([c[0], c[len(c) // 2], c[-1]]))
                pick.append(0.5 * (c[0] + c[-1]) + 0.173 * (c[-1] - c[0]) / 2 if len(c) > 1 else c[0])
                X.append(sorted(set(pick)))
            prod = [tuple(t) for t in itertools.product(*X)]
            gres = None
            with ctx.guard("B.interp.grid", site_of(case, "interp"), wc + "-grid-raises"):
                with quiet():
                    if kind == "global":
                        gres = G.interpolate_grid([list(x) for x in X], ComponentGridInfo([max(l) for l in case["levels"]], 1))
                    else:
                        gres = G.interpolate_grid([list(x) for x in X], lo, hi, list(case["levelvec"]))
                    want = np.asarray(interpolate(prod), dtype=float)
            if gres is not None:
                gres = np.asarray(gres, dtype=float)
                okg = gres.shape == want.shape
                errg = float(np.max(np.abs(gres - want))) if okg else float("inf")
                ctx.check("B.interp.grid", okg and errg <= 1e-9 * (1 + vmax), site_of(case, "interp"), wc + "-grid",
                          "interpolate_grid vs interpolate at the %d product points: shape %s vs %s, max difference %.3e" % (len(prod), gres.shape, want.shape, errg))
    # 2. hierarchisation alone against an own tensor evaluation of the basis objects
    bases = [basis_list(G, kind, i) for i in range(d)]
    coords = [[float(x) for x in G.get_coordinates_dim(i)] for i in range(d)]
    if all(len(bases[i]) == len(coords[i]) == nump[i] for i in range(d)) and all(bf is not None for bl in bases for bf in bl):
        vals = np.array([[table[P][j] for P in pts] for j in range(outlen)], dtype=float)
        sur = None
        sur_shared = None
        with ctx.guard("B.hier.collocation", SITE_HIER, wc + "-raises"):
            sur = np.asarray(HierarchizationLSG(G)(vals.copy(), nump, G))
            if hist.get("lsg") is not None:  # an operator object that has served other grids before
                sur_shared = np.asarray(hist["lsg"](vals.copy(), nump, G))
        if sur is not None:
            mats = [np.array([[bases[i][j](coords[i][k]) for j in range(nump[i])] for k in range(nump[i])]) for i in range(d)]
            rec = sur.reshape([outlen] + nump)
            for i in range(d):  # contract dimension i with the collocation matrix (row = point, column = basis)
                rec = np.moveaxis(np.tensordot(mats[i], rec, axes=([1], [i + 1])), 0, i + 1)
            err = float(np.max(np.abs(rec.reshape(outlen, -1) - vals)))
            ctx.check(clause_col, err <= 1e-9 * (1 + vmax), SITE_HIER, wc + ("-qr" if max(nump) >= 15 else ""),
                      "max collocation residual %.3e (%s points per dimension)" % (err, nump))
            if sur_shared is not None:
                rec = sur_shared.reshape([outlen] + nump)
                for i in range(d):
                    rec = np.moveaxis(np.tensordot(mats[i], rec, axes=([1], [i + 1])), 0, i + 1)
                err = float(np.max(np.abs(rec.reshape(outlen, -1) - vals)))
                ctx.check("B.hist.reuse", err <= 1e-9 * (1 + vmax), SITE_HIER, wclass(case) + "/shared-operator" + ("-qr" if max(nump) >= 15 else ""),
                          "operator object shared between grids: max collocation residual %.3e (%s points per dimension)" % (err, nump))
    else:
        ctx.check("B.hier.collocation", False, site_of(case, "build"), wc + "-basis-missing",
                  "basis objects per dimension %s vs points %s" % ([len(x) for x in bases], nump))
        return
    # 3. polynomial reproduction everywhere (boundary grids only)
    if case["boundary"]:
        lvl = case["levels"] if kind == "global" else [complete_levels(l) for l in case["levelvec"]]
        cap = lagrange_cap if case["family"] == "lagrange" else bspline_cap
        degs_max = [min(p, nump[i] - 1, cap(lvl[i])) for i in range(d)]
        degs = [r.randint(0, q) if r.random() < 0.3 else q for q in degs_max]
        ptab = {P: [poly_value(P, degs, lo, hi, j) for j in range(outlen)] for P in pts}
        ev = [tuple(lo[i] + (hi[i] - lo[i]) * r.random() for i in range(d)) for _ in range(12 if d < 3 else 6)]
        ev += [tuple(lo), tuple(hi), tuple(0.5 * (lo[i] + hi[i]) for i in range(d))]
        out = None
        with ctx.guard("B.interp.returns", site_of(case, "interp"), wc + "-poly-raises"):
            with quiet():
                integrate(table_function(ptab, outlen))
                out = np.asarray(interpolate(list(ev)))
        if out is not None:
            fmax = max(abs(v) for row in ptab.values() for v in row)
            err = max(abs(float(out[i][j]) - poly_value(P, degs, lo, hi, j)) for i, P in enumerate(ev) for j in range(outlen))
            ctx.check(clause_poly, err <= 1e-8 * (1 + fmax), site_of(case, "interp"), wc + ("/poly" if tag else ""),
                      "degrees %s (p=%d, points %s): max error %.3e at %d points" % (degs, p, nump, err, len(ev)))
    # report stability: what was handed out before the second integrate()/interpolate() must not have changed
    changed = [label for ref, cp, label in kept if not np.array_equal(np.asarray(ref, dtype=float), cp)]
    ctx.check("B.hist.stable", not changed, site_of(case, "interp"), wc + "/reported-earlier", "changed after later calls: %s" % changed)
    if "earlier" in hist and kind == "local":
        hist["earlier"][(tuple(lo), tuple(hi), tuple(case["levelvec"]))] = (list(lo), list(hi), list(case["levelvec"]),
                                                                             list(degs) if case["boundary"] else None, outlen)
    # 4. basis objects
    for i in range(d):
        wl = weight_list(G, kind, i)
        for j, bf in enumerate(bases[i]):
            key = basis_key(bf, lo[i], hi[i])
            if seen_basis is not None:
                if key in seen_basis:
                    continue
                seen_basis.add(key)
            check_basis(ctx, bf, lo[i], hi[i], wl[j] if len(wl) == len(bases[i]) else None, case, r)


def inner(bf):
    return getattr(bf, "spline", bf)


def basis_key(bf, lo, hi):
    return (type(bf).__name__, bf.p, int(bf.index), int(getattr(bf, "level", -1)), tuple(float(k) for k in bf.knots), lo, hi)


def gauss_integral(f, breaks):
    import numpy as np
    xs, ws = np.polynomial.legendre.leggauss(12)
    total = 0.0
    for l, r in zip(breaks[:-1], breaks[1:]):
        if r > l:
            total += 0.5 * (r - l) * sum(w * f(0.5 * (r - l) * x + 0.5 * (r + l)) for x, w in zip(xs, ws))
    return total


def check_basis(ctx, bf, lo, hi, weight, case, r):
    from sparseSpACE.BasisFunctions import LagrangeBasis
    name = type(bf).__name__
    site = "sparseSpACE.BasisFunctions:%s" % name
    wc = wclass(case) + "-p%d" % case["p"]
    knots = [float(k) for k in bf.knots]
    core = inner(bf)
    modified = "Modified" in name
    # Lagrange type: Kronecker property at the knots
    if isinstance(core, LagrangeBasis):
        own = knots[int(core.index)]
        v_own = float(bf(own))
        others = [k for j, k in enumerate(knots) if j != int(core.index) and (not modified or lo < k < hi)]
        bad = [(k, float(bf(k))) for k in others if float(bf(k)) != 0.0]
        ctx.check("B.lagrange.kronecker", abs(v_own - 1.0) <= 1e-12 and not bad, SITE_LAGR if name.startswith("Lagrange") else site + ".__call__", wc,
                  "%s index %d knots %s: value at own knot %.17g, non-zero at other knots %s" % (name, core.index, knots, v_own, bad[:3]))
    # smooth sample points: inside knot intervals of [lo, hi]
    breaks = sorted(set([lo, hi] + [k for k in knots if lo < k < hi]))
    cells = list(zip(breaks[:-1], breaks[1:]))
    width = min(r_ - l_ for l_, r_ in cells)
    samples = []
    for _ in range(3):
        l_, r_ = r.choice(cells)
        samples.append(l_ + (r_ - l_) * r.uniform(0.15, 0.85))
    worst1 = worst2 = 0.0
    at1 = at2 = None
    for x in samples:
        h = 1e-6 * (r_ - l_ if False else width)
        fd = (float(bf(x + h)) - float(bf(x - h))) / (2 * h)
        d1 = float(bf.get_first_derivative(x))
        e1 = abs(fd - d1) / (1.0 + abs(fd) + 1.0 / width)
        if e1 > worst1:
            worst1, at1 = e1, (x, d1, fd)
        h2 = 1e-5 * width
        fd2 = (float(bf.get_first_derivative(x + h2)) - float(bf.get_first_derivative(x - h2))) / (2 * h2)
        d2 = float(bf.get_second_derivative(x))
        e2 = abs(fd2 - d2) / (1.0 + abs(fd2) + 1.0 / width ** 2)
        if e2 > worst2:
            worst2, at2 = e2, (x, d2, fd2)
    ctx.check("B.basis.derivative", worst1 <= 1e-5, site + ".get_first_derivative", wc,
              "%s p=%d index %d level %s: (x, derivative, central difference) = %s" % (name, bf.p, bf.index, getattr(bf, "level", None), at1))
    ctx.check("B.basis.derivative", worst2 <= 1e-5, site + ".get_second_derivative", wc,
              "%s p=%d index %d level %s: (x, second derivative, central difference of first) = %s" % (name, bf.p, bf.index, getattr(bf, "level", None), at2))
    if weight is not None:
        ref = gauss_integral(lambda t: float(bf(t)), breaks)
        ctx.check("B.basis.integral", abs(ref - weight) <= 1e-10 * (hi - lo) * (1 + abs(ref) / (hi - lo)), site + ".get_integral", wc,
                  "%s p=%d index %d level %s knots %s: stored weight %.15g, integral of the values over [%g,%g] %.15g"
                  % (name, bf.p, bf.index, getattr(bf, "level", None), knots[:8], weight, lo, hi, ref))


def raw_case(ctx, case):
    """basis classes used directly (BSpline.get_integral etc. are not reached through the grids)"""
    import numpy as np
    from sparseSpACE import BasisFunctions as BFm
    r = random.Random(case["seed"])
    p, knots, index = case["p"], [float(k) for k in case["knots"]], case["index"]
    bf = None
    with ctx.guard("B.interp.returns", "sparseSpACE.BasisFunctions:%s.__init__" % case["cls"], wclass(case) + "-raises"):
        bf = getattr(BFm, case["cls"])(p, index, np.array(knots) if case["cls"] == "BSpline" else list(knots))
    if bf is None:
        return
    lo, hi = case["lo"], case["hi"]
    xs, ws = np.polynomial.legendre.leggauss(int(p / 2) + 1)
    weight = None
    with ctx.guard("B.basis.integral", "sparseSpACE.BasisFunctions:%s.get_integral" % case["cls"], wclass(case) + "-raises"):
        weight = float(bf.get_integral(lo, hi, xs, ws))
    if case["cls"] == "LagrangeBasisRestricted":  # integrates over its own support, whatever [lo, hi] is
        lo, hi = [float(t) for t in bf.get_boundaries()]
    check_basis(ctx, bf, lo, hi, weight, case, r)


def raw_cases(ctx, quick):
    rng = ctx.rng
    for cls in ("BSpline", "LagrangeBasis", "LagrangeBasisRestricted"):
        for p in (1, 2, 3, 5):
            for k in range(8 if quick else 40):
                n = p + 2 + rng.randint(0, 4) if cls == "BSpline" else rng.randint(2, p + 1)
                x0 = rng.choice((-6.0, -1.0, 0.0, 0.5))
                knots = [x0]
                for _ in range(n - 1):
                    knots.append(knots[-1] + rng.choice((0.125, 0.25, 0.5, 1.0, 0.375)))
                index = rng.randint(0, len(knots) - p - 2) if cls == "BSpline" else rng.randint(0, len(knots) - 1)
                lo = knots[0] if rng.random() < 0.5 else 0.5 * (knots[0] + knots[1])
                hi = knots[-1] if rng.random() < 0.5 else 0.5 * (knots[-2] + knots[-1])
                if hi <= lo:
                    lo, hi = knots[0], knots[-1]
                yield {"kind": "raw", "family": cls.lower(), "cls": cls, "p": p, "knots": knots, "index": index, "lo": lo, "hi": hi,
                       "boundary": True, "modified": False, "d": 1, "seed": rng.randrange(10 ** 6)}


def smooth_function(d, outlen, seed):
    from sparseSpACE.Function import Function
    r = random.Random(seed)
    w = [[r.uniform(0.5, 2.5) for _ in range(d)] for _ in range(outlen)]

    class Smooth(Function):
        def output_length(self):
            return outlen

        def eval(self, x):
            return [math.sin(sum(w[j][i] * x[i] for i in range(d)) + j) + 0.25 * x[0] * x[-1] for j in range(outlen)]
    return Smooth()


def graded_levels(depth_complete, cell, extra):
    """complete tree of the given depth plus `extra` nested points inside its cell number `cell`, each halving the left-most remaining
    piece (same size for every cell).  Interior cells are used: points next to the domain boundary make the modified B-splines evaluate
    two second derivatives per call, which is only slow, not different."""
    base = complete_levels(depth_complete)
    chain = list(range(depth_complete + 1, depth_complete + extra + 1))
    return base[:cell + 1] + chain[::-1] + base[cell + 1:]


def sequence_case(ctx, case, seen=None):
    """one grid object, many trees / areas"""
    import sparseSpACE.Grid  # noqa
    from sparseSpACE.Hierarchization import HierarchizationLSG
    d = case["d"]
    hist = {"G": None, "lsg": HierarchizationLSG(None), "tag": "/reused-grid", "earlier": {},
            "f": smooth_function(d, case["outlen"], case["seed"]) if case["shared_function"] else None}
    base = {k: case[k] for k in ("kind", "family", "p", "boundary", "modified", "d", "domain", "outlen")}
    for n_step, step in enumerate(case["steps"]):
        sc = dict(base, seed=case["seed"] + n_step, **step)
        if not has_points(sc):
            continue
        grid_case(ctx, sc, seen, hist)
        if hist["G"] is None:
            return
    if case["kind"] == "local" and hist["G"] is not None and case["boundary"]:
        # what interpolate_points of the extend-split strategy does: go back to an earlier area and interpolate there; the last table
        # integrated on every area was the polynomial one
        import numpy as np
        G = hist["G"]
        wc = wclass(dict(base, whole=True)) + "/earlier-area"
        for lo, hi, lv, degs, outlen in hist["earlier"].values():
            if degs is None:
                continue
            out = None
            with ctx.guard("B.hist.reuse", SITE_LI, wc + "-raises"):
                with quiet():
                    G.setCurrentArea(lo, hi, lv)
                    pts = [tuple(float(c) for c in P) for P in G.getPoints()]
                    out = np.asarray(G.interpolate(list(pts), lo, hi, lv))
            if out is not None and len(pts):
                err = max(abs(float(out[i][j]) - poly_value(P, degs, lo, hi, j)) for i, P in enumerate(pts) for j in range(outlen))
                ctx.check("B.hist.reuse", err <= 1e-8 * 3, SITE_LI, wc,
                          "area %s-%s level %s revisited after other areas: max error %.3e at its grid points" % (lo, hi, lv, err))


def sequence_cases(ctx, quick):
    rng = ctx.rng
    nine = [graded_levels(2, 1, 4), graded_levels(2, 2, 4), complete_levels(3)]
    seventeen = [complete_levels(4), graded_levels(3, 1, 8), graded_levels(3, 6, 8)]
    assert all(len(x) == 9 for x in nine) and all(len(x) == 17 for x in seventeen)
    tree_seq = nine + seventeen + [seventeen[0], nine[0]]
    for family in ("lagrange", "bspline"):
        for p in PS[family]:
            for boundary, modified in FLAGS[family]:
                g = {"kind": "global", "family": family, "p": p, "boundary": boundary, "modified": modified}
                for shared in (True, False):
                    yield dict(g, d=1, domain=rng.choice(("unit", "box")), outlen=2, shared_function=shared, seed=rng.randrange(10 ** 6),
                               steps=[{"levels": [t]} for t in tree_seq])
                if boundary and p <= 3:
                    # the SAME point set with two different level assignments (what a rebalancing rotation of the dimension-wise strategy produces): bisection
                    # tree towards the left end, then the rotated tree with the root at the former level-2 point, then the first one again (missed seed C10_8:
                    # collocation matrices cached by the coordinates alone)
                    rp = [0.0, 0.125, 0.25, 0.5, 1.0]
                    yield dict(g, d=1, domain="unit", outlen=3, shared_function=False, seed=rng.randrange(10 ** 6),
                               steps=[{"levels": [[0, 3, 2, 1, 0]], "rel_points": [rp]}, {"levels": [[0, 2, 1, 2, 0]], "rel_points": [rp]}, {"levels": [[0, 3, 2, 1, 0]], "rel_points": [rp]}])
                if not quick or p in (1, 3):
                    other = [[0, 2, 1, 0], [0, 1, 2, 0], [0, 1, 0]]
                    yield dict(g, d=2, domain="box", outlen=1, shared_function=True, seed=rng.randrange(10 ** 6),
                               steps=[{"levels": [t, other[i % 3]]} for i, t in enumerate(nine[:2] + seventeen + [seventeen[0]])])
                if boundary:  # local classes without boundary are the known findings of the single-shot cases
                    lc = {"kind": "local", "family": family, "p": p, "boundary": boundary, "modified": modified}
                    areas = sub_areas(1, "box")
                    steps = [{"start": areas[k % 4][0], "end": areas[k % 4][1], "whole": areas[k % 4][2], "levelvec": [l]}
                             for k, l in enumerate((4, 4, 3, 4, 2, 4, 3))]
                    yield dict(lc, d=1, domain="box", outlen=2, shared_function=False, seed=rng.randrange(10 ** 6), steps=steps)
                    a2 = sub_areas(2, "box")
                    steps2 = [{"start": a2[k % 4][0], "end": a2[k % 4][1], "whole": a2[k % 4][2], "levelvec": list(lv)}
                              for k, lv in enumerate(((2, 1), (1, 2), (2, 1), (4, 0), (2, 1)))]
                    yield dict(lc, d=2, domain="box", outlen=1, shared_function=False, seed=rng.randrange(10 ** 6), steps=steps2)


# ----------------------------------------------------------------------------------------------------------------
FLAGS = {"lagrange": [(True, False), (False, False)], "bspline": [(True, False), (False, False), (False, True)]}
PS = {"lagrange": (1, 2, 3, 5), "bspline": (1, 3, 5)}


def sub_areas(d, domain):
    a, b = [x[:d] for x in DOMAIN[domain]]
    h = [(b[i] - a[i]) for i in range(d)]
    whole = (list(a), list(b), True)
    left = (list(a), [a[i] + h[i] / 2 for i in range(d)], False)
    right = ([a[i] + h[i] / 2 for i in range(d)], list(b), False)
    mid = ([a[i] + h[i] / 4 for i in range(d)], [a[i] + h[i] / 2 for i in range(d)], False)
    return [whole, left, right, mid]


def global_cases(ctx, quick):
    rng = ctx.rng
    for family in ("lagrange", "bspline"):
        for p in PS[family]:
            for boundary, modified in FLAGS[family]:
                base = {"kind": "global", "family": family, "p": p, "boundary": boundary, "modified": modified}
                # d = 1: all small trees, complete grids, deep random trees
                trees = [levels_of(t) for t in all_trees(3) if t is not None]
                trees += [complete_levels(m) for m in ((4,) if quick else (4, 5))]
                for _ in range(8 if quick else 30):
                    t = None
                    while t is None or not (8 <= len(levels_of(t)) <= 40):
                        t = random_tree(rng, rng.randint(4, 6), rng.choice((0.7, 0.85)))
                    trees.append(levels_of(t))
                for lv in trees:
                    yield dict(base, d=1, domain=rng.choice(("unit", "box")), levels=[lv], outlen=rng.choice((1, 2, 3)), seed=rng.randrange(10 ** 6))
                # d = 2: pairs of random trees, one of them possibly large
                for k in range(5 if quick else 20):
                    lv = []
                    for i in range(2):
                        t = None
                        hi = 20 if (i == k % 2) else 9
                        while t is None or len(levels_of(t)) > hi:
                            t = random_tree(rng, rng.randint(1, 5), 0.8)
                        lv.append(levels_of(t))
                    if k == 0:
                        lv[0] = complete_levels(4)  # 17 points: QR branch inside a tensor grid
                    yield dict(base, d=2, domain=rng.choice(("unit", "box")), levels=lv, outlen=rng.choice((1, 2)), seed=rng.randrange(10 ** 6))
                # d = 3: depth <= 2
                small = [levels_of(t) for t in all_trees(2) if t is not None]
                for k in range(2 if quick else 8):
                    yield dict(base, d=3, domain=rng.choice(("unit", "box")), levels=[rng.choice(small) for _ in range(3)], outlen=rng.choice((1, 2)),
                               seed=rng.randrange(10 ** 6))


def local_cases(ctx, quick):
    rng = ctx.rng
    for family in ("lagrange", "bspline"):
        for p in PS[family]:
            for boundary, modified in FLAGS[family]:
                base = {"kind": "local", "family": family, "p": p, "boundary": boundary, "modified": modified}
                for (s, e, whole) in sub_areas(1, "box") + sub_areas(1, "unit")[:2]:
                    for l in range(0, 5 if quick else 6):
                        yield dict(base, d=1, domain="box" if s[0] < 0 or e[0] > 1 else "unit", start=s, end=e, whole=whole, levelvec=[l],
                                   outlen=rng.choice((1, 2, 3)), seed=rng.randrange(10 ** 6))
                lv2 = [(0, 0), (1, 2), (2, 1), (3, 0), (2, 2)] if quick else list(itertools.product(range(4), repeat=2)) + [(4, 1), (1, 4)]
                for (s, e, whole) in (sub_areas(2, "box")[:2] if quick else sub_areas(2, "box")):
                    for lv in lv2:
                        yield dict(base, d=2, domain="box", start=s, end=e, whole=whole, levelvec=list(lv), outlen=rng.choice((1, 2)),
                                   seed=rng.randrange(10 ** 6))
                lv3 = [(1, 0, 2)] if quick else [(0, 0, 0), (1, 1, 1), (2, 1, 0), (1, 2, 2), (2, 2, 2)]
                for (s, e, whole) in sub_areas(3, "unit")[:2]:
                    for lv in lv3:
                        yield dict(base, d=3, domain="unit", start=s, end=e, whole=whole, levelvec=list(lv), outlen=1, seed=rng.randrange(10 ** 6))


def has_points(case):
    """a local grid without boundary points on an area that spans the whole domain at level 0 has no point at all"""
    if "steps" in case or case["kind"] != "local" or case["boundary"]:
        return True
    a, b = [x[:case["d"]] for x in DOMAIN[case["domain"]]]
    for i in range(case["d"]):
        n = 2 ** case["levelvec"][i] + 1 - int(case["start"][i] == a[i]) - int(case["end"][i] == b[i])
        if n <= 0:
            return False
    return True


def nontrivial(case):
    if case["kind"] == "raw" or "steps" in case:
        return True
    if case["kind"] == "global":
        return any(len(l) > 2 or case["boundary"] for l in case["levels"])
    return any(l >= 1 for l in case["levelvec"]) or case["boundary"]


def run(ctx):
    quick = ctx.quick()
    seen = set()
    n = total = 0
    import sparseSpACE.Grid  # noqa
    from sparseSpACE.Hierarchization import HierarchizationLSG
    shared = {"lsg": HierarchizationLSG(None)}  # one operator object serving every grid of the run
    for n_pass in range(1 if quick else 12):
        cases = [c for c in local_cases(ctx, quick) if has_points(c)] + list(global_cases(ctx, quick)) + list(raw_cases(ctx, quick))
        cases += list(sequence_cases(ctx, quick))
        # low dimensions first so that an early stop still covers every class
        ctx.rng.shuffle(cases)
        cases.sort(key=lambda c: c["d"])
        total += len(cases)
        stop = False
        for case in cases:
            if ctx.out_of_time(0.9):
                stop = True
                break
            ctx.case(case, nontrivial=nontrivial(case))
            if case["kind"] == "raw":
                raw_case(ctx, case)
            elif "steps" in case:
                sequence_case(ctx, case, seen)
            else:
                grid_case(ctx, case, seen, shared)
            n += 1
        if stop or ctx.out_of_time(0.75):
            break
    ctx.exhaustive = False
    ctx.note("%d of %d generated cases run, %d distinct 1-D basis objects checked" % (n, total, len(seen)))


def replay(ctx, case):
    if case["kind"] == "raw":
        raw_case(ctx, case)
    elif "steps" in case:
        sequence_case(ctx, case, None)
    else:
        grid_case(ctx, case, None)
