"""Layer B: bounded stand-in.  Runtime contracts on the REAL functions of /repo, checked over a
stated, bounded universe.  Nothing that passes here is ever counted as proved.

A harness module bounded/Cxx.py defines

    CLAUSES = {clause_id: "text of the contract clause (runtime form)"}   # stable ids
    BOUND   = "human-readable statement of the bounded universe"
    def run(ctx): ...                      # enumerate/generate cases, call ctx.case / ctx.check
    def replay(ctx, case): ...             # optional: re-run ONE recorded case (dict) natively

Conventions
  * ctx.case(desc, nontrivial=True) is called once per generated case *before* it is executed;
    desc must be JSON-serialisable and identify the case completely (it is what replay() gets).
  * ctx.check(clause, ok, site=..., witness_class=..., msg=...) records a contract evaluation;
    a False `ok` is a violation of that clause at that site for the current case.
  * ctx.guard(clause, site, witness_class) is a context manager turning an unexpected exception
    of the real code into a violation of `clause` (for "never raises on valid input" clauses);
    do not use it around code that may legitimately raise.
  * ctx.out_of_time() must be polled by long enumerations (budget depends on the tier).
  * every pseudo-random choice must come from ctx.rng (seeded by VERIF_SEED).
"""
import contextlib
import hashlib
import json
import os
import random
import sys
import time
import traceback

REPO = os.environ.get("VERIF_REPO", "/repo")


def use_repo():
    """Make `import sparseSpACE` resolve to the current working tree of /repo."""
    if REPO not in sys.path:
        sys.path.insert(0, REPO)
    os.environ.setdefault("MPLBACKEND", "Agg")
    import sparseSpACE  # noqa
    assert os.path.realpath(os.path.dirname(sparseSpACE.__file__)).startswith(os.path.realpath(REPO)), \
        "sparseSpACE not imported from the working tree"


def _jsonable(x, depth=0):
    try:
        import numpy as np
    except Exception:  # pragma: no cover
        np = None
    if depth > 6:
        return repr(x)[:200]
    if x is None or isinstance(x, (bool, int, str)):
        return x
    if isinstance(x, float):
        return x if x == x and abs(x) != float("inf") else repr(x)
    if np is not None:
        if isinstance(x, np.generic):
            return _jsonable(x.item(), depth + 1)
        if isinstance(x, np.ndarray):
            return _jsonable(x.tolist(), depth + 1)
    if isinstance(x, dict):
        return {str(k): _jsonable(v, depth + 1) for k, v in x.items()}
    if isinstance(x, (list, tuple, set, frozenset)):
        return [_jsonable(v, depth + 1) for v in x]
    return repr(x)[:200]


class Ctx:
    def __init__(self, prop, tier, seed, budget_s):
        self.prop = prop
        self.tier = tier
        self.seed = seed
        self.rng = random.Random(seed)
        self.t0 = time.time()
        self.cpu0 = time.process_time()
        self.threads = 1
        self.budget_s = budget_s
        self.evaluations = 0
        self._distinct = set()
        self.samples = []
        self.violations = []
        self.clause_evals = {}
        self.errors = []
        self.notes = []
        self.exhaustive = None
        self._case = None
        self._case_checks = 0
        self.max_violations = 25

    # ---- cases -------------------------------------------------------------------------
    def case(self, desc, nontrivial=True):
        self.evaluations += 1
        self._case = _jsonable(desc)
        self._case_checks = 0
        if nontrivial:
            h = hashlib.sha1(json.dumps(self._case, sort_keys=True).encode()).hexdigest()
            self._distinct.add(h)
        if len(self.samples) < 5 or (self.evaluations in (10, 100, 1000) and len(self.samples) < 8):
            self.samples.append(self._case)
        return self._case

    def quick(self):
        return self.tier == "quick"

    def elapsed(self):
        """budget clock: CPU time of this process (so that the explored universe does not shrink when the machine is busy), never less than a
        sixth of the wall time (a starved or blocked run still ends well inside the stage timeout)"""
        wall = time.time() - self.t0
        cpu = (time.process_time() - self.cpu0) / self.threads
        return min(wall, max(cpu, wall / 6.0))

    def wall(self):
        return time.time() - self.t0

    def out_of_time(self, fraction=1.0):
        return self.elapsed() > self.budget_s * fraction

    def np_rng(self, salt=0):
        import numpy as np
        return np.random.RandomState((self.seed * 1000003 + salt) % (2 ** 32))

    # ---- contract evaluation -----------------------------------------------------------
    def check(self, clause, ok, site="", witness_class="", msg="", witness=None):
        self.clause_evals[clause] = self.clause_evals.get(clause, 0) + 1
        self._case_checks += 1
        try:
            ok = bool(ok)
        except Exception:
            ok = False
        if not ok:
            self.violation(clause, site, witness_class, msg, witness)
        return ok

    def violation(self, clause, site, witness_class, msg, witness=None):
        if len(self.violations) >= self.max_violations:
            return
        key = (clause, site, witness_class)
        for v in self.violations:
            if (v["clause"], v["site"], v["witness_class"]) == key:
                v["count"] += 1
                return
        self.violations.append({
            "clause": clause, "site": site, "witness_class": witness_class,
            "message": str(msg)[:2000], "case": self._case, "witness": _jsonable(witness), "count": 1})

    @contextlib.contextmanager
    def guard(self, clause, site="", witness_class="raises"):
        """An exception escaping the real code inside this block violates `clause`."""
        try:
            yield
            self.clause_evals[clause] = self.clause_evals.get(clause, 0) + 1
        except (KeyboardInterrupt, SystemExit, MemoryError):
            raise
        except Exception as e:  # noqa
            tb = traceback.format_exc(limit=6)
            self.clause_evals[clause] = self.clause_evals.get(clause, 0) + 1
            self.violation(clause, site, witness_class, "%s: %s\n%s" % (type(e).__name__, e, tb))

    def note(self, s):
        self.notes.append(str(s))

    def result(self, clauses, bound):
        return {
            "property": self.prop, "tier": self.tier, "seed": self.seed,
            "clauses": [{"id": k, "text": v, "evaluations": self.clause_evals.get(k, 0)} for k, v in clauses.items()],
            "bound": bound,
            "evaluations": self.evaluations,
            "distinct_nontrivial": len(self._distinct),
            "samples": self.samples,
            "exhaustive": bool(self.exhaustive),
            "violations": self.violations,
            "errors": self.errors,
            "notes": self.notes,
            "wall_s": round(self.wall(), 2),
        }


def close(a, b, rel=1e-9, abs_=1e-12):
    import numpy as np
    a = np.asarray(a, dtype=float)
    b = np.asarray(b, dtype=float)
    if a.shape != b.shape:
        try:
            a, b = np.broadcast_arrays(a, b)
        except ValueError:
            return False
    return bool(np.all(np.abs(a - b) <= abs_ + rel * np.maximum(np.abs(a), np.abs(b))))


@contextlib.contextmanager
def quiet():
    """Silence the library's prints (they are not part of any contract)."""
    import io
    old = sys.stdout
    sys.stdout = io.StringIO()
    try:
        yield
    finally:
        sys.stdout = old


def library_failure(e):
    """(site, witness class) if the exception comes out of the library under test, else None"""
    tb = e.__traceback__
    last = None
    while tb is not None:
        last = tb
        tb = tb.tb_next
    root = os.path.join(REPO, "sparseSpACE") + os.sep
    if last is not None:
        fn = last.tb_frame.f_code.co_filename
        if os.path.abspath(fn).startswith(os.path.abspath(root)):
            mod = "sparseSpACE." + os.path.splitext(os.path.basename(fn))[0]
            return "%s:%s" % (mod, last.tb_frame.f_code.co_name), "%s-in-%s" % (type(e).__name__, last.tb_frame.f_code.co_name)
    if isinstance(e, AttributeError) and getattr(e, "obj", None) is not None and str(getattr(type(e.obj), "__module__", "")).startswith("sparseSpACE"):
        return "%s:%s" % (type(e.obj).__module__, type(e.obj).__name__), "missing-attribute-%s" % getattr(e, "name", "?")
    return None
