"""Shared driver of the layer-B harnesses C03 and C06 (dimension-wise spatially adaptive strategy).

The REAL adaptive loop of SpatiallyAdaptiveSingleDimensions2 is driven through the public API only:

  * an `ErrorCalculator` subclass (the adversarial benefit oracle) is passed as `errorOperator`; per refinement
    step it returns seeded, arbitrary non-negative errors per refinement object (the objects' `evaluations` are 0
    in this strategy, so benefit == error; this assumption is re-checked on every step and a failure is a harness
    error, not a verdict),
  * a subclass of the strategy overrides `refine()` / `rebalance()` only to call observers before/after the
    inherited implementation (no behaviour is changed),
  * `performSpatiallyAdaptiv(tol=-1)` runs the real loop (evaluate, error estimate, refine, ...) and is left with
    a private `StopRun` exception raised by the hook after the requested number of steps.

Nothing of the code under test is re-implemented here; the observers of C03/C06 contain the independent oracles.
"""
import hashlib
import math
import random
import struct
import traceback

from bounded.api import quiet

MOD = "sparseSpACE.spatiallyAdaptiveSingleDimension2:SpatiallyAdaptiveSingleDimensions2"
SITE_LOOP = "sparseSpACE.spatiallyAdaptiveBase:SpatiallyAdaptivBase.performSpatiallyAdaptiv"
SITE_REFINE = "sparseSpACE.spatiallyAdaptiveBase:SpatiallyAdaptivBase.refine"
SITE_POST = MOD + ".refinement_postprocessing"
SITE_REBALANCE = MOD + ".rebalance"
SITE_COORD = MOD + ".get_point_coord_for_each_dim"
SITE_POINTS = MOD + ".get_points_component_grid"
SITE_CALL = "sparseSpACE.StandardCombi:StandardCombi.__call__"

VERSIONS = (6, 2, 3, 7, 8)
LEVELS = ((1, 2), (1, 3), (2, 3))
MARGINS = (0.5, 0.9, 1.0, 0.0)   # 0.0: every interval qualifies (an explicit margin of 0 must not fall back to the default)
DOMAINS = {
    "unit": ([0.0, 0.0, 0.0], [1.0, 1.0, 1.0]),
    "test": ([-3.0, -3.0, -3.0], [6.0, 6.0, 6.0]),
    "aniso": ([-1.0, 0.5, 2.0], [2.0, 1.25, 5.0]),
    "odd": ([0.1, -0.3, 1.7], [0.7, 0.9, 2.3]),
}
STYLES = ("mixed", "edge_left", "edge_right", "deep", "subset", "onedim")


class StopRun(Exception):
    """Raised by the hook (never by the library) to leave the real adaptive loop after N steps."""


class HarnessError(Exception):
    """A failure of the harness' own code or of one of its stated assumptions (never a verdict)."""


def table_value(seed, p):
    """Random table function: a deterministic pseudo-random value in [1,2) per coordinate tuple."""
    h = hashlib.blake2b(struct.pack("<q%dd" % len(p), int(seed), *[float(x) + 0.0 for x in p]), digest_size=8).digest()
    return 1.0 + int.from_bytes(h, "little") / 2.0 ** 64


# ------------------------------------------------------------------------------------------------------------
# adversarial benefit oracle
# ------------------------------------------------------------------------------------------------------------
def make_plan(rng, sizes, levels, margin, style, script=None):
    """Errors for one refinement step.  sizes[d] = number of intervals of dimension d, levels[d][i] = max end
    level of interval i.  Returns (errors per dim, info).  The set of intervals with error >= max*margin is an
    arbitrary (style-dependent) subset; ties at the maximum, ties exactly at the threshold, zeros, values just
    below the threshold and the single-interval case are all produced."""
    dim = len(sizes)
    allpos = [(d, i) for d in range(dim) for i in range(sizes[d])]
    n = len(allpos)
    if script is not None:
        chosen = set((int(d), int(i)) for d, i in script)
        errs = [[1.0 if (d, i) in chosen else 0.0 for i in range(sizes[d])] for d in range(dim)]
        return errs, {"mode": "script"}
    r = rng.random()
    mode = style
    if style == "mixed":
        mode = rng.choice(["single", "edge_left", "edge_right", "deep", "subset", "onedim", "single", "subset"])
    elif r < 0.25:
        mode = rng.choice(["single", "subset", "deep"])
    if n <= 26 and rng.random() < 0.07:
        mode = rng.choice(["all", "zeros"])
    dd = rng.randrange(dim)
    if mode == "single":
        chosen = {rng.choice(allpos)}
    elif mode == "edge_left":
        chosen = {(dd, 0)} if rng.random() < 0.8 else {(dd, min(1, sizes[dd] - 1))}
    elif mode == "edge_right":
        chosen = {(dd, sizes[dd] - 1)} if rng.random() < 0.8 else {(dd, max(0, sizes[dd] - 2))}
    elif mode == "deep":
        top = max(levels[dd])
        cand = [(dd, i) for i in range(sizes[dd]) if levels[dd][i] == top]
        chosen = set(rng.sample(cand, min(len(cand), rng.choice([1, 1, 2]))))
    elif mode == "subset":
        p = rng.choice([0.08, 0.2, 0.4])
        chosen = {pos for pos in allpos if rng.random() < p} or {rng.choice(allpos)}
    elif mode == "onedim":
        chosen = {(dd, i) for i in range(sizes[dd])}
        if rng.random() < 0.5:
            chosen = {pos for pos in chosen if rng.random() < 0.6} or {(dd, 0)}
    else:  # all / zeros
        chosen = set(allpos)
    if mode == "zeros":
        big = 0.0
    else:
        big = rng.choice([1.0, 1.0, rng.uniform(0.1, 10.0), 1e-3 * rng.uniform(0.5, 2.0), 3.0e5])
    thr = big * margin  # the same float product the library forms (benefit_max * margin)
    below = math.nextafter(thr, 0.0) if thr > 0 else 0.0
    errs = [[0.0] * sizes[d] for d in range(dim)]
    first = True
    for (d, i) in sorted(chosen, key=lambda t: rng.random()):
        if first:
            v, first = big, False
        else:
            v = rng.choice([big, thr, rng.uniform(thr, big) if big > thr else big])
            v = min(max(v, thr), big)
        errs[d][i] = v
    if thr > 0:
        for (d, i) in allpos:
            if (d, i) not in chosen:
                errs[d][i] = rng.choice([0.0, 0.0, below, rng.uniform(0.0, below)])
                if not errs[d][i] < thr:
                    errs[d][i] = 0.0
    return errs, {"mode": mode, "max": big}


def make_oracle_class():
    from sparseSpACE.ErrorCalculator import ErrorCalculator

    class AdversarialErrors(ErrorCalculator):
        """Public-API error estimator returning the planned error of the current step for each interval."""

        def __init__(self, oseed, margin, style, script=None):
            super().__init__()
            self.oseed = oseed
            self.margin = margin
            self.style = style
            self.script = script
            self.sa = None
            self.step = 0          # number of finished refinement steps (advanced by the hook)
            self._plan_step = None
            self._by_id = {}
            self.plan = None
            self.info = None

        def build_plan(self):
            conts = self.sa.refinement.refinementContainers
            objs = [c.get_objects() for c in conts]
            sizes = [len(o) for o in objs]
            levels = [[max(x.levels) for x in o] for o in objs]
            rng = random.Random("%d/%d" % (self.oseed, self.step))
            script = None
            if self.script is not None:
                script = self.script[self.step] if self.step < len(self.script) else []
            self.plan, self.info = make_plan(rng, sizes, levels, self.margin, self.style, script)
            self._by_id = {id(x): self.plan[d][i] for d, o in enumerate(objs) for i, x in enumerate(o)}
            self._keep = objs  # keep the objects alive so ids stay unique during the step
            self._plan_step = self.step

        def calc_error(self, refine_object, norm, volume_weights=None):
            if self._plan_step != self.step:
                self.build_plan()
            return self._by_id[id(refine_object)]

    return AdversarialErrors


# ------------------------------------------------------------------------------------------------------------
# hooked strategy
# ------------------------------------------------------------------------------------------------------------
class Observer(object):
    """Callbacks; every callback runs harness code only."""

    def state(self, sa, step):            # after the initial evaluation (step 0) and after every refine()
        pass

    def before_refine(self, sa, pre):     # pre: snapshot incl. the oracle's benefits
        pass

    def after_refine(self, sa, pre, step):
        pass

    def after_rebalance(self, sa, d):
        pass


def snapshot(sa, oracle=None):
    snap = []
    for d, cont in enumerate(sa.refinement.refinementContainers):
        row = []
        for i, o in enumerate(cont.get_objects()):
            row.append({"start": o.start, "end": o.end, "levels": (o.levels[0], o.levels[1]),
                        "coarsening": o.coarsening_level, "benefit": o.benefit,
                        "err": None if oracle is None else oracle.plan[d][i]})
        snap.append(row)
    return snap


def make_strategy_class():
    from sparseSpACE.spatiallyAdaptiveSingleDimension2 import SpatiallyAdaptiveSingleDimensions2

    class Hooked(SpatiallyAdaptiveSingleDimensions2):
        verif = None  # set per instance

        def _verif_call(self, fn, *args):
            v = self.verif
            try:
                fn(*args)
            except StopRun:
                raise
            except Exception:
                v["harness_error"] = traceback.format_exc(limit=12)
                raise StopRun()

        def refine(self):
            v = self.verif
            oracle = v["oracle"]
            if oracle._plan_step != oracle.step:
                v["harness_error"] = "oracle was not consulted before refine() (step %d)" % oracle.step
                raise StopRun()
            pre = snapshot(self, oracle)
            for row in pre:   # stated assumption of the oracle: benefit == error (evaluations are 0)
                for x in row:
                    if x["benefit"] != x["err"]:
                        v["harness_error"] = "assumption broken: benefit %r != oracle error %r" % (x["benefit"], x["err"])
                        raise StopRun()
            if oracle.step == 0:
                self._verif_call(v["observer"].state, self, 0)
            self._verif_call(v["observer"].before_refine, self, pre)
            v["in_refine"] = True
            super().refine()
            v["in_refine"] = False
            oracle.step += 1
            v["modes"].append(oracle.info.get("mode"))
            self._verif_call(v["observer"].after_refine, self, pre, oracle.step)
            self._verif_call(v["observer"].state, self, oracle.step)
            if oracle.step >= v["steps"] or v["ctx"].out_of_time(0.97):
                raise StopRun()

        def rebalance(self, d):
            objs = self.refinement.get_refinement_container_for_dim(d).get_objects()
            before = [tuple(o.levels) for o in objs]
            super().rebalance(d)
            changed = before != [tuple(o.levels) for o in objs]
            self.verif["rebalance_calls"] += 1
            self.verif["rebalance_changed"] += int(changed)
            self._verif_call(self.verif["observer"].after_rebalance, self, d)

    return Hooked


def domain_of(case):
    a, b = DOMAINS[case["domain"]]
    d = case["d"]
    return list(a[:d]), list(b[:d])


def build(case, observer, ctx):
    """Construct grid, function, operation, oracle and hooked strategy for a case (no library call is run yet)."""
    import numpy as np
    from sparseSpACE.Grid import GlobalTrapezoidalGrid
    from sparseSpACE.Function import Function
    from sparseSpACE.GridOperation import Integration

    d = case["d"]
    a, b = domain_of(case)
    a, b = np.array(a), np.array(b)
    fseed = case["oseed"] ^ 0x5EED

    class TableFunction(Function):
        def eval(self, coordinates):
            return table_value(fseed, coordinates)

        def output_length(self):
            return 1

    grid = GlobalTrapezoidalGrid(a=a, b=b, boundary=bool(case["boundary"]), modified_basis=False)
    f = TableFunction()
    op = Integration(f=f, grid=grid, dim=d)
    oracle = make_oracle_class()(case["oseed"], case["margin"], case.get("style", "mixed"), case.get("script"))
    Hooked = make_strategy_class()
    sa = Hooked(a, b, version=case["version"], operation=op, margin=case["margin"],
                rebalancing=bool(case["rebalancing"]), rebalancing_safety_factor=case.get("safety", 0.1))
    oracle.sa = sa
    sa.verif = {"oracle": oracle, "observer": observer, "steps": case["steps"], "ctx": ctx, "harness_error": None,
                "in_refine": False, "modes": [], "rebalance_calls": 0, "rebalance_changed": 0}
    return sa, oracle, (lambda p: table_value(fseed, p))


def run_adaptive(ctx, case, observer, run_clause):
    """Run the real adaptive loop for `case`; returns (sa, number of finished refinement steps)."""
    with quiet():
        sa, oracle, f = build(case, observer, ctx)
    observer.f = f
    observer.case = case
    with ctx.guard(run_clause, SITE_LOOP, "raises-v%d-%s" % (case["version"], "reb" if case["rebalancing"] else "noreb")):
        try:
            with quiet():
                sa.performSpatiallyAdaptiv(lmin=case["lmin"], lmax=case["lmax"], errorOperator=oracle, tol=-1,
                                           print_output=False)
        except StopRun:
            pass
    if sa.verif["harness_error"]:
        raise HarnessError(sa.verif["harness_error"])
    return sa, oracle.step


def random_case(rng, quick, d=None, levels=None, version=None, rebalancing=None, boundary=None, margin=None):
    d = d if d is not None else rng.choice([2, 3])
    lmin, lmax = levels if levels is not None else rng.choice(LEVELS)
    return {
        "kind": "adaptive", "d": d, "lmin": lmin, "lmax": lmax,
        "version": version if version is not None else rng.choice(VERSIONS),
        "rebalancing": int(rebalancing if rebalancing is not None else rng.random() < 0.5),
        "safety": rng.choice([0.0, 0.1, 0.1, 0.3]),
        "boundary": int(boundary if boundary is not None else rng.random() < 0.6),
        "margin": margin if margin is not None else rng.choice(MARGINS),
        "steps": rng.choice([3, 4]) if (quick or (d == 3 and lmax == 3)) else rng.choice([3, 4, 5, 6]),
        "domain": rng.choice(sorted(DOMAINS)),
        "style": rng.choice(STYLES),
        "oseed": rng.getrandbits(31),
    }


def covering_cases(rng, quick):
    """One case per (version, rebalancing, boundary) x cycling through d, levels, margins: every value of every
    universe axis (and every pair version x rebalancing x boundary) occurs."""
    out = []
    k = 0
    for version in VERSIONS:
        for reb in (1, 0):
            for bnd in (1, 0):
                d = 2 + (k % 2) if not quick else (3 if k % 5 == 4 else 2)
                lv = LEVELS[k % 3]
                out.append(random_case(rng, quick, d=d, levels=lv, version=version, rebalancing=reb, boundary=bnd,
                                       margin=MARGINS[(k // 2) % len(MARGINS)]))
                k += 1
    return out
