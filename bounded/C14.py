"""C14 bounded stand-in: interrupted / saved / resumed refinement ends where an uninterrupted run ends.

For d=2 configurations of the dimension-wise and the extend-split strategy, an uninterrupted run with the final limits is
compared with runs that are stopped at every evaluation index (smaller max_evaluations, or a larger tolerance) and then
continued with continue_adaptive_refinement and the final limits; at some interruption points the stopped instance is
additionally written with save_to_file into a temporary directory (removed afterwards) and read back with restore_from_file.
"""
import os
import shutil
import tempfile

import numpy as np

from bounded.api import close, quiet

BUDGET = {"quick": 60.0, "thorough": 840.0}
BOUND = ("d=2, domains [0,1]^2 and [-0.5,1.5]^2; dimension-wise (GlobalTrapezoidalGrid boundary on/off, versions {6,2,3,7,8}, rebalancing on/off, margin in {0.9,0.5,0.7,0.99}, use_volume_weighting on/off (on: two components of magnitude 1:100..1000), lmax in {2,3}) "
         "and extend-split (TrapezoidalGrid with boundary, versions {0,1,2}, refinements-before-extend {1,2,3}, automatic_extend_split, split_single_dim); "
         "integrands Genz family + random smooth, scalar and 2-component; uninterrupted runs with <=8 evaluations (final limit: max_evaluations, "
         "or a tolerance with reference solution + max_evaluations); every interruption index j incl. the last one (stop by max_evaluations=n_j-1; last index: first limit n_(k-1), final limit n_k-1, i.e. already exceeded at the stop; additionally, dimension-wise only, one stop by a "
         "larger tolerance with a tolerance-decided final stop); save/restore round trip through dill at up to 3 (quick: 2) interruption indices per configuration, 7 random probe points")
BOUND += "; round-10 additions: one fixed four-dimensional case with lmin = lmax = 2 (interrupt at 750, final 1800 points)"
RULE = BOUND + "; a case is one (configuration, integrand, final limits, interruption limits, with/without save+restore); non-trivial = interruption strictly before the final stop and at least one refinement in the uninterrupted run"
CLAUSES = {
    "B.resume.structure": "after stop + continue_adaptive_refinement(final limits): refinement structure (intervals/areas with levels and coarsening, lmax) equals that of the uninterrupted run",
    "B.resume.scheme": "... combination scheme (level vectors with coefficients) equals that of the uninterrupted run",
    "B.resume.result": "... combined result equals that of the uninterrupted run (rel 1e-10 / abs 1e-12)",
    "B.resume.points": "... get_total_num_points() equals that of the uninterrupted run",
    "B.restore.call": "restore_from_file(save_to_file(x))(points) == x(points) at probe points (rel 1e-12: a restored set may iterate in another order, which "
                      "permutes floating-point sums); same current result, scheme, structure and point count",
    "B.restore.eval": "evaluate_final_combi() of the restored instance returns what it returns on (a deep copy of) the saved instance (rel 1e-12)",
    "B.restore.continue": "continuing the restored instance gives the structure, scheme, point count and (rel 1e-12) result obtained by continuing the saved instance itself",
    "B.restore.final": "continuing the restored instance with the final limits ends where the uninterrupted run ends (structure, scheme, result, point count)",
}

S_CONT = "sparseSpACE.spatiallyAdaptiveBase:SpatiallyAdaptivBase.continue_adaptive_refinement"
S_SAVE = "sparseSpACE.StandardCombi:StandardCombi.save_to_file"
S_REST = "sparseSpACE.StandardCombi:StandardCombi.restore_from_file"
REL, ABS = 1e-10, 1e-12


class _StopScout(Exception):
    pass


def _dc():
    from bounded import _drivers_common as dc
    return dc


def snapshot(dc, s, r):
    return {"structure": dc.structure_sig(s), "scheme": dc.scheme_sig(s), "result": np.array(r[3], float), "points": int(s.get_total_num_points())}


def scout(case, max_refinements=7):
    dc = _dc()
    s, eo, f = dc.build(case["cfg"], case["comps"], case["ref"])
    log = dc.instrument(s, f)
    inner = s.refine

    def limited():
        if log["seq"].count("R") >= max_refinements:
            raise _StopScout()
        return inner()

    s.refine = limited
    try:
        dc.run_adaptive(s, eo, 1, case["cfg"]["lmax"], -1.0, None)
    except _StopScout:
        pass
    return [e["npts"] for e in log["evals"]], [e["ret"][0] for e in log["evals"]]


def new_area_values(s):
    """Sum of the values of the areas that are 'new' at a stop of an area based strategy (tagging of the known double count only)."""
    try:
        vals = [np.asarray(a.value, float) for a in s.refinement.get_new_objects()]
        return sum(vals) if vals else None
    except Exception:
        return None


def compare_final(ctx, prefix, st, got, want, site, extra_new=None):
    """prefix in {B.resume, B.restore.final}: compare a continued run with the uninterrupted one."""
    same_struct = got["structure"] == want["structure"]
    same_scheme = got["scheme"] == want["scheme"]
    same_res = close(got["result"], want["result"], rel=REL, abs_=ABS)
    same_pts = got["points"] == want["points"]
    wc_res = st + "-resume-differs"
    if not same_res and st == "extend" and same_struct and same_scheme and same_pts and extra_new is not None and \
            close(got["result"] - want["result"], extra_new, rel=1e-7, abs_=1e-10):
        wc_res = "extend-split-resume"  # exactly the areas that were new at the stop are counted twice
    if prefix == "B.resume":
        ctx.check("B.resume.structure", same_struct, site, st + "-resume", "structures differ:\n got %s\nwant %s" % (got["structure"], want["structure"]))
        ctx.check("B.resume.scheme", same_scheme, site, st + "-resume", "schemes differ: got %s want %s" % (got["scheme"], want["scheme"]))
        ctx.check("B.resume.result", same_res, site, wc_res, "resumed run ends with %s, uninterrupted run with %s" % (got["result"], want["result"]))
        ctx.check("B.resume.points", same_pts, site, st + "-resume", "point count %s vs %s" % (got["points"], want["points"]))
    else:
        ok = same_struct and same_scheme and same_res and same_pts
        wc = wc_res if (same_struct and same_scheme and same_pts) else st + "-restored-resume-differs"
        ctx.check(prefix, ok, site, wc if not ok else st, "restored+continued vs uninterrupted: structure %s scheme %s result %s (%s vs %s) points %s"
                  % (same_struct, same_scheme, same_res, got["result"], want["result"], same_pts))


def run_to(dc, case, limits, with_eo=False):
    s, eo, f = dc.build(case["cfg"], case["comps"], case["ref"])
    r = dc.run_adaptive(s, eo, case["cfg"].get("lmin", 1), case["cfg"]["lmax"], limits["tol"], limits["max"], limits.get("min", 1))
    return (s, r, eo) if with_eo else (s, r)


def check_case(ctx, case):
    dc = _dc()
    st = case["cfg"]["strategy"]
    fin, itr = case["final"], case["interrupt"]
    # uninterrupted reference run
    want = None
    with ctx.guard("B.resume.result", S_CONT, st + "-raises"):
        U, rU = run_to(dc, case, fin)
        want = snapshot(dc, U, rU)
    if want is None:
        return
    # interrupted run
    I = None
    with ctx.guard("B.resume.result", S_CONT, st + "-raises"):
        I, rI = run_to(dc, case, itr)
    if I is None:
        return
    extra = new_area_values(I) if st == "extend" else None
    if case.get("container"):
        # third way of continuing: a second performSpatiallyAdaptiv on the same instance that is handed the refinement reached so far
        # (refinement_container=...), with the final limits (missed seed C14_8: the operation was re-initialised on that path, the point count restarted)
        got = None
        with ctx.guard("B.resume.result", S_CONT, st + "-container-raises"):
            I2, rI2, eo2 = run_to(dc, case, itr, with_eo=True)
            with quiet():
                r = I2.performSpatiallyAdaptiv(1, case["cfg"]["lmax"], eo2, fin["tol"], refinement_container=I2.refinement, max_evaluations=fin["max"],
                                               min_evaluations=fin.get("min", 1), print_output=False)
            got = snapshot(dc, I2, dc._freeze(r))
        if got is not None:
            compare_final(ctx, "B.resume", st + "-container", got, want, S_CONT, None)
        return
    if not case["save"]:
        got = None
        with ctx.guard("B.resume.result", S_CONT, st + "-raises"):
            r = dc.continue_adaptive(I, fin["tol"], fin["max"], fin.get("min", 1))
            got = snapshot(dc, I, r)
        if got is not None:
            compare_final(ctx, "B.resume", st, got, want, S_CONT, extra)
        return
    # save / restore round trip at the interruption point
    tmp = tempfile.mkdtemp(prefix="verif_C14_")
    R = None
    try:
        fn = os.path.join(tmp, "instance.dill")
        with ctx.guard("B.restore.call", S_SAVE, st + "-save-raises"):
            with quiet():
                I.save_to_file(fn)
        if os.path.exists(fn):
            with ctx.guard("B.restore.call", S_REST, st + "-restore-raises"):
                from sparseSpACE.StandardCombi import StandardCombi
                with quiet():
                    R = StandardCombi.restore_from_file(fn)
    finally:
        shutil.rmtree(tmp, ignore_errors=True)
    if R is None:
        ctx.check("B.restore.call", False, S_REST, st + "-nothing-restored", "save_to_file/restore_from_file produced no instance")
        return
    P = [tuple(float(x) for x in row) for row in case["probe"]]
    with ctx.guard("B.restore.call", S_REST, st + "-call-raises"):
        # state first (interpolation evaluates the integrand and would re-populate a lost point dictionary)
        same_state = (np.array_equal(np.array(I.operation.get_result(), float), np.array(R.operation.get_result(), float))
                      and dc.structure_sig(I) == dc.structure_sig(R) and dc.scheme_sig(I) == dc.scheme_sig(R)
                      and I.get_total_num_points() == R.get_total_num_points())
        with quiet():  # on deep copies: interpolation evaluates the integrand and must not disturb the instances that are continued
            vI = np.array(dc.clone(I)(P), float)
            vR = np.array(dc.clone(R)(P), float)
        ctx.check("B.restore.call", same_state and close(vI, vR, rel=1e-12, abs_=1e-14), S_REST, st,
                  "restored instance differs from the saved one: state equal %s (points %s vs %s); values at probe points %s vs %s"
                  % (same_state, R.get_total_num_points(), I.get_total_num_points(), vR[:2], vI[:2]))
    with ctx.guard("B.restore.eval", S_REST, st + "-eval-raises"):
        with quiet():
            e1 = np.array(dc.clone(I).evaluate_final_combi()[0], float)
            e2 = np.array(dc.clone(R).evaluate_final_combi()[0], float)
        ctx.check("B.restore.eval", close(e1, e2, rel=1e-12, abs_=1e-14), S_REST, st, "evaluate_final_combi: saved %s restored %s" % (e1, e2))
    gotI = gotR = None
    with ctx.guard("B.restore.continue", S_CONT, st + "-raises"):
        rr = dc.continue_adaptive(R, fin["tol"], fin["max"], fin.get("min", 1))
        gotR = snapshot(dc, R, rr)
        ri = dc.continue_adaptive(I, fin["tol"], fin["max"], fin.get("min", 1))
        gotI = snapshot(dc, I, ri)
    if gotI is not None and gotR is not None:
        ok = (gotI["structure"] == gotR["structure"] and gotI["scheme"] == gotR["scheme"] and close(gotI["result"], gotR["result"], rel=1e-12, abs_=1e-14)
              and gotI["points"] == gotR["points"])
        ctx.check("B.restore.continue", ok, S_REST, st, "continuation of restored instance %s / %d points, of saved instance %s / %d points"
                  % (gotR["result"], gotR["points"], gotI["result"], gotI["points"]))
        compare_final(ctx, "B.restore.final", st, gotR, want, S_CONT, extra)


# ---------------------------------------------------------------------------------------------------------
# generation
# ---------------------------------------------------------------------------------------------------------

def gen_configs(ctx, n):
    rng = ctx.rng
    out = []
    for i in range(n):
        st = ["dimwise", "extend"][i % 2]
        a, b = ([0.0, 0.0], [1.0, 1.0]) if i % 5 != 4 else ([-0.5, -0.5], [1.5, 1.5])
        cfg = {"strategy": st, "a": a, "b": b, "norm": rng.choice([1, 2, "inf"]), "lmax": 2 if rng.random() < 0.6 else 3}
        k = i // 2
        if st == "dimwise":
            cfg["grid"] = {"type": "GlobalTrapezoidal", "boundary": k % 3 != 2}
            cfg["opts"] = {"version": [6, 2, 3, 7, 8][k % 5], "rebalancing": k % 4 != 3}
            if k % 2 == 1:
                cfg["opts"]["margin"] = [0.5, 0.99, 0.7][k % 3]
            if k % 4 == 2:
                cfg["opts"]["use_volume_weighting"] = True
                cfg["norm"] = rng.choice([1, 2])
        else:
            cfg["grid"] = {"type": "Trapezoidal", "boundary": True}
            cfg["opts"] = {"version": [0, 0, 1, 2][k % 4], "number_of_refinements_before_extend": [1, 2, 3][k % 3]}
            if k % 5 == 1:
                cfg["opts"]["automatic_extend_split"] = True
            elif k % 5 == 3 and cfg["opts"]["version"] == 0:
                cfg["opts"]["split_single_dim"] = True
        out.append(cfg)
    return out


def anchor_configs():
    """Fixed configurations that go through the full pipeline (all interruption indices) first: the documented option use_volume_weighting
    with two quantities of interest of magnitude 1 : 1000 whose features compete for the refinement (longer history: <=12 refinements)."""
    cfg = {"strategy": "dimwise", "a": [-1.0, 0.5], "b": [2.0, 1.5], "norm": 2, "lmax": 2, "grid": {"type": "GlobalTrapezoidal", "boundary": True},
           "opts": {"use_volume_weighting": True}}
    comps = [["gauss", [40.0, 40.0], [0.23, 0.71]], ["scale", 1000.0, ["gauss", [25.0, 25.0], [0.64, 0.3]]]]
    return [(cfg, comps)]


def anchor_cases():
    """Fixed, seed independent witnesses of the known extend-split resume defect (plain and after save/restore); run first in every run."""
    es = {"strategy": "extend", "a": [0.0, 0.0], "b": [1.0, 1.0], "norm": "inf", "lmax": 2, "grid": {"type": "Trapezoidal", "boundary": True},
          "opts": {"version": 0, "number_of_refinements_before_extend": 2}}
    base = {"kind": "case", "cfg": es, "comps": [["corner", [1.0, 3.0]]], "ref": None, "final": {"tol": -1.0, "max": 120, "min": 1},
            "interrupt": {"tol": -1.0, "max": 20, "min": 1}, "probe": [[0.3, 0.6], [0.71, 0.12]], "index": 0}
    # degenerate start levels lmin == lmax in four dimensions, interrupted when some dimensions have had their maximum level raised and others have not (missed seed
    # C14_a: surplus volumes reset at re-entry only in dimensions with lmax > lmin, so the benefits of a resumed run were no longer scaled by one common factor)
    dw4 = {"strategy": "dimwise", "a": [0.0] * 4, "b": [1.0] * 4, "norm": "inf", "lmin": 2, "lmax": 2, "grid": {"type": "GlobalTrapezoidal", "boundary": True}, "opts": {}}
    flat = {"kind": "case", "cfg": dw4, "comps": [["corner", [1.0, 2.0, 3.0, 0.5]]], "ref": None, "final": {"tol": -1.0, "max": 1800, "min": 1},
            "interrupt": {"tol": -1.0, "max": 750, "min": 1}, "probe": [[0.3, 0.6, 0.2, 0.8], [0.71, 0.12, 0.5, 0.4]], "index": 1, "save": False}
    return [dict(base, save=False), dict(base, save=True), flat]


def run(ctx):
    dc = _dc()
    ctx.exhaustive = False
    quick = ctx.quick()
    for case in anchor_cases():
        ctx.case(case, nontrivial=True)
        check_case(ctx, case)
    rounds = 0
    while True:
        todo = ([(c, comps, 12) for c, comps in anchor_configs()] if rounds == 0 else []) + [(c, None, 7) for c in gen_configs(ctx, 10 if quick else 40)]
        for cfg, fixed_comps, max_ref in todo:
            if ctx.out_of_time(0.85):
                break
            rng = ctx.rng
            if fixed_comps is not None:
                comps = fixed_comps
            elif cfg["opts"].get("use_volume_weighting"):
                # quantities of interest of very different magnitude: the volume weights matter
                comps = [dc.random_genz(rng, 2, "gauss"), ["scale", rng.choice([100.0, 1000.0]), dc.random_genz(rng, 2, "gauss")]]
            else:
                comps = [dc.random_genz(rng, 2) for _ in range(1 if rng.random() < 0.6 else 2)]
            ref = dc.gauss_reference(comps, np.array(cfg["a"]), np.array(cfg["b"]), n=16)
            use_ref = bool(np.all(np.abs(ref) > 1e-8))
            base = {"cfg": cfg, "comps": comps, "ref": [float(x) for x in ref] if use_ref else None}
            ctx.case(dict(base, kind="scout"), nontrivial=False)
            npts = None
            with ctx.guard("B.resume.result", S_CONT, cfg["strategy"] + "-raises"):
                npts, errs = scout(base, max_ref)
            if not npts or len(npts) < 2:
                continue
            k = len(npts) - 1
            stops = [j for j in range(k + 1) if j == 0 or npts[j] > max(npts[:j])]
            last = stops[-1]
            final = {"tol": -1.0, "max": npts[last] - 1, "min": 1}
            probe = [[round(float(x), 6) for x in row] for row in
                     (np.array(cfg["a"]) + (np.array(cfg["b"]) - np.array(cfg["a"])) * np.array([[rng.uniform(0.02, 0.98) for _ in range(2)] for _ in range(7)]))]
            inter = [j for j in stops if j < last]
            save_at = set(rng.sample(inter, min(len(inter), 2 if quick else 3))) if inter else set()
            for j in inter:
                itr = {"tol": -1.0, "max": npts[j] - 1, "min": 1}
                for save in ([False, True] if j in save_at else [False]):
                    if ctx.out_of_time(0.92):
                        break
                    case = dict(base, kind="case", final=final, interrupt=itr, save=save, probe=probe, index=j)
                    ctx.case(case, nontrivial=last > 0)
                    check_case(ctx, case)
                if cfg["strategy"] == "dimwise" and not ctx.out_of_time(0.92):
                    case = dict(base, kind="case", final=final, interrupt=itr, save=False, container=True, probe=probe, index=j)
                    ctx.case(case, nontrivial=last > 0)
                    check_case(ctx, case)
            # interruption at the LAST evaluation of the uninterrupted run: first limit smaller than the final one, but the refinement reached
            # at the stop already exceeds the final limit -> the continuation has to stop where it is
            if last > 0 and npts[last - 1] < npts[last] - 1 and max(npts[:last]) == npts[last - 1]:
                itr = {"tol": -1.0, "max": npts[last - 1], "min": 1}
                for save in (False, True):
                    if ctx.out_of_time(0.92):
                        break
                    case = dict(base, kind="case", final=final, interrupt=itr, save=save, probe=probe, index=last)
                    ctx.case(case, nontrivial=True)
                    check_case(ctx, case)
            # interruption and final stop decided by tolerances (needs a reference)
            if use_ref and k >= 2 and cfg["strategy"] == "dimwise" and not ctx.out_of_time(0.92):
                j = rng.randrange(0, k)
                tol_final = float(min(errs[:k + 1])) * 0.999
                final2 = {"tol": tol_final, "max": npts[last] - 1, "min": 1}
                itr2 = {"tol": float(errs[j]) * (1 + 1e-6), "max": npts[last] - 1, "min": 1}
                case = dict(base, kind="case", final=final2, interrupt=itr2, save=False, probe=probe, index=None)
                ctx.case(case, nontrivial=True)
                check_case(ctx, case)
        rounds += 1
        if quick or ctx.out_of_time(0.8) or rounds >= 4:
            break


def replay(ctx, case):
    if case.get("kind") == "scout":
        with ctx.guard("B.resume.result", S_CONT, case["cfg"]["strategy"] + "-raises"):
            scout(case)
    else:
        check_case(ctx, case)
