"""C17 bounded stand-in (relational): density-estimation caching (reuse_old_values) and the size-dependent implementations
(internal constant 200) of the real DensityEstimation operation are transparent.

The B.reuse.* / B.size.* clauses compare two executions of the REAL code with each other (reuse on vs off on the same data and
refinement history; small-grid vs large-grid implementation on the same grid); there the reference helpers of C16 only generate data /
grids and name witness classes.  The B.hist.* clauses follow ONE run through its history and compare the interpolated densities with
the definition (reference hats of C16 on the current stripes), because a stale state cannot be seen by comparing with an earlier answer.
"""
import itertools
import random
import types

from bounded.api import quiet, close
from bounded import C16 as ref

BOUND = ("boundary-free hat basis on [0,1]^d; (A) reuse on/off: real SpatiallyAdaptiveSingleDimensions2 + GlobalTrapezoidalGrid runs, d in {2,3}, "
         "(lmin,lmax) in {(1,2),(1,3),(2,3)} with 1..3 refinement steps (small grids), and natively large grids (N>=200): d=2, "
         "(lmin,lmax) in {(4,4),(3,4)}, 1..2 steps; the same value-independent seeded adversarial ErrorCalculator drives both runs, so the "
         "refinement histories coincide; data sets of 1..40 samples in the closed unit cube (random / dyadic grid lines / boundary / "
         "clustered / mixed), lambda in {0,1e-3,0.1}, labels none or +-1, mass lumping on/off, rebalancing on/off, margin in {0.5,0.9}; "
         "a third of the histories is continued by continue_adaptive_refinement (1..2 more steps) and a third uses the large-grid "
         "interpolation on every grid (constant 200 -> 0, harness only); small-grid histories are run natively and, in the harness process only, with the size constant 200 of "
         "calculate_B_dimension_wise replaced by 0 in BOTH runs (so the reuse implementation is exercised on small grids); comparison "
         "after every evaluation round; (B) size paths: uniform grids with levels 1..4 (N<=400) and bisection-tree grids with N in "
         "[1,330] incl. N in {195,196,200,210,216}: the real functions with the constant 200 replaced by 0 resp. 10**9 and the "
         "unmodified functions, on the same grid, data and surpluses, 8..30 evaluation points incl. grid points, grid lines, domain boundary")
BOUND += "; fault / magnitude additions: a quarter of the small histories: the user's global estimator raises once in evaluation round 2 or 3 and the run is resumed (same fault with reuse on and off)"
RULE = BOUND + "; one case = one (history, data, configuration) pair of runs, or one (grid, data, surpluses) for the size paths; all cases non-trivial"
BUDGET = {"quick": 45.0, "thorough": 840.0}

CLAUSES = {
    "B.reuse.scheme": "after every evaluation round the combination scheme (level vectors, coefficients) with reuse on == reuse off",
    "B.reuse.rhs": "every right-hand side computed during the run with reuse on == the one computed with reuse off for the same grid "
                   "and round, abs 1e-12",
    "B.reuse.matrix": "build_R_matrix_dimension_wise with the warm cache of the reuse run == cold computation, 1e-9 relative to the "
                      "largest entry (cached entries stem from other point pairs with the same widths: rounding differs), on every "
                      "component grid of the final scheme",
    "B.reuse.surpluses": "after every round the surpluses of every component grid (whose right-hand sides agree) are equal, 1e-8 "
                         "(abs+rel; cached matrix entries differ by up to 1e-11 relative, amplified by the condition number)",
    "B.reuse.density": "after every round (if all right-hand sides agree) the combined densities at the probe points are equal, 1e-8",
    "B.size.rhs_uniform": "calculate_B: small-grid (vectorised) and large-grid (per-sample) implementations agree, abs 1e-12",
    "B.size.rhs_dimwise": "calculate_B_dimension_wise: small-grid and large-grid implementations agree, abs 1e-12",
    "B.size.interpolation": "interpolate_points_component_grid: small-grid (vectorised) and large-grid (per-point) implementations "
                            "agree, abs 1e-10 (relative to max |surplus|)",
    "B.run.returns": "the real entry points return normally on valid input",
    "B.hist.density_definition": "after every evaluation round of one run (also after continue_adaptive_refinement) the combined density at "
                                 "the SAME probe points == sum_grids coefficient * sum_i alpha_i phi_i(x) with reference hats on the current "
                                 "stripes and the current surpluses, 1e-9 * (1 + max); natively and with the large-grid interpolation forced",
    "B.hist.idempotent": "evaluating the combined density twice at the same points on the same objects gives identical values",
    "B.hist.report_stable": "density and surplus arrays handed out in earlier rounds still equal the copies taken then, at the end of the run",
}

DE = ref.DE
ML = ref.ML
SA = "sparseSpACE.spatiallyAdaptiveSingleDimension2:SpatiallyAdaptiveSingleDimensions2.performSpatiallyAdaptiv"


STATS = {"surplus": 0.0, "matrix": 0.0}      # largest tolerated deviations seen (reported as a note: margin to the tolerances)


def probe_points(d, seed, n=14):
    import numpy as np
    rs = np.random.RandomState(seed % (2 ** 32))
    P = rs.rand(n, d)
    lev = rs.randint(1, 5, size=(n, d))
    snap = rs.rand(n, d) < 0.35
    P = np.where(snap, np.round(P * 2.0 ** lev) / 2.0 ** lev, P)
    P[0] = 0.5
    P[1] = 0.0
    P[2] = 1.0
    return np.clip(P, 0.0, 1.0)


def run_history(ctx, case, reuse):
    """one real run; returns per-round snapshots and the recorded right-hand sides"""
    import numpy as np
    d = case["d"]
    data, labels = ref.make_data(d, case["data"])
    op = ref.new_de(d, data, labels, lam=case["lam"], masslumping=case["ml"], reuse=reuse, global_grid=True)
    base = None
    if case.get("forced"):
        g = ref.with_threshold(type(op).calculate_B_dimension_wise, 0)
        if g is None:
            ctx.note("calculate_B_dimension_wise has no constant 200 any more: forced histories run natively")
        else:
            base = types.MethodType(g, op)
    if base is None:
        base = type(op).calculate_B_dimension_wise.__get__(op)
    state = {"round": 0}
    rhs = {}

    def calculate_B_dimension_wise(data_, stripes, levels):
        had_old = len(op.old_B) > 0
        b = base(data_, stripes, levels)
        rhs[(state["round"] + 1, ref.stripes_key(stripes))] = (np.array(b, dtype=float), had_old)
        return b
    op.calculate_B_dimension_wise = calculate_B_dimension_wise
    if case.get("interp_forced"):
        # harness process only: the large-grid (per-point) interpolation is used on every grid during the whole history
        if not ref.patch_threshold(op, "interpolate_points_component_grid", 0):
            ctx.note("interpolate_points_component_grid has no constant 200 any more: interpolation runs natively")
    P = probe_points(d, case["data"]["seed"] + 17)
    snaps = {}
    live = []                                          # (round, what, object handed out, copy at that time)

    def hook(rnd, sa):
        state["round"] = rnd
        snap = {"scheme": sorted((tuple(int(x) for x in cg.levelvector), float(cg.coefficient)) for cg in sa.scheme),
                "surpluses": {tuple(int(x) for x in k): np.array(v, dtype=float) for k, v in op.surpluses.items()},
                "keys": {tuple(int(x) for x in cg.levelvector): ref.stripes_key(sa.get_point_coord_for_each_dim(cg.levelvector)[0])
                         for cg in sa.scheme}}
        try:
            with quiet():
                first = sa(P)
                second = sa(P)
            snap["dens"] = np.array(first, dtype=float)
            snap["dens_again"] = np.array(second, dtype=float)
            if isinstance(first, np.ndarray):
                live.append((rnd, "density", first, first.copy()))
        except Exception as e:  # reported through the density clause of the pair
            snap["dens_error"] = "%s: %s" % (type(e).__name__, e)
        # the definition: sum over component grids of coefficient * sum_i alpha_i phi_i(x), reference hats on the CURRENT stripes
        total = np.zeros(len(P))
        for cg in sa.scheme:
            lv = tuple(int(x) for x in cg.levelvector)
            stripes = [list(x) for x in snap["keys"][lv]]
            al = snap["surpluses"].get(lv)
            Phi = ref.basis_matrix(stripes, P)
            if al is None or Phi.shape[1] != len(al):
                total = None
                break
            total = total + float(cg.coefficient) * (Phi @ al)
            if isinstance(op.surpluses.get(lv), np.ndarray):
                live.append((rnd, "surpluses%s" % (lv,), op.surpluses[lv], op.surpluses[lv].copy()))
        snap["dens_def"] = total
        snaps[rnd] = snap
    sa = None
    with ctx.guard("B.run.returns", SA, "dimwise-de-run-reuse-%s" % reuse):
        sa = ref.run_driver(op, d, case["lmin"], case["lmax"], case["steps"], case["margin"], case["rebal"], case["oracle_seed"], hook=hook,
                            fault_round=case.get("fault_round"))
    if sa is not None and case.get("continue_steps"):
        # second stage on the same objects: the refinement is continued after the stop
        with ctx.guard("B.run.returns", "sparseSpACE.spatiallyAdaptiveBase:SpatiallyAdaptivBase.continue_adaptive_refinement", "dimwise-de-continue-reuse-%s" % reuse):
            sa.errorEstimator.steps = max(snaps) + case["continue_steps"] if snaps else case["continue_steps"]
            from bounded._drivers_common import ModelFault
            with quiet():
                try:
                    sa.continue_adaptive_refinement(tol=0.0)
                except ModelFault:      # the injected estimator fault struck in this stage: the caller resumes once more
                    sa.continue_adaptive_refinement(tol=0.0)
    del op.calculate_B_dimension_wise
    check_history_clauses(ctx, case, snaps, live, reuse)
    return op, sa, snaps, rhs


def check_history_clauses(ctx, case, snaps, live, reuse):
    """single-run history clauses: values against the definition after every round (also after continue), repeated query, stability
    of everything handed out"""
    import numpy as np
    path = "forced-large-interp" if case.get("interp_forced") else ("native-large" if case["lmax"] >= 4 else "native-small")
    first_stage = case["steps"] + 1
    for rnd in sorted(snaps):
        sn = snaps[rnd]
        tag = path + ("-after-continue" if rnd > first_stage else "") + ("-reuse" if reuse else "")
        if "dens" not in sn:
            ctx.check("B.hist.density_definition", False, ML + "interpolate_points_component_grid", tag + "-raises",
                      "round %d: evaluation of the combined density raised: %s" % (rnd, sn.get("dens_error")))
            continue
        if sn["dens_def"] is not None:
            dd = sn["dens"].reshape(-1) - sn["dens_def"]
            scale = 1e-9 * (1.0 + float(np.max(np.abs(sn["dens_def"]))))
            ctx.check("B.hist.density_definition", bool(np.all(np.abs(dd) <= scale)), ML + "interpolate_points_component_grid", tag,
                      "round %d: combined density differs from sum coeff * sum_i alpha_i phi_i(x) on the current grids by %.3e at %d of %d points"
                      % (rnd, float(np.max(np.abs(dd))), int(np.sum(np.abs(dd) > scale)), len(dd)))
        ctx.check("B.hist.idempotent", np.array_equal(sn["dens"], sn["dens_again"]), ML + "interpolate_points_component_grid", tag,
                  "round %d: evaluating the same points twice gave different values (max %.3e)" % (rnd, float(np.max(np.abs(sn["dens"] - sn["dens_again"])))))
    bad = [(rnd, what) for rnd, what, obj, cp in live if not np.array_equal(obj, cp)]
    ctx.check("B.hist.report_stable", not bad, SA, path + ("-reuse" if reuse else ""),
              "arrays handed out in earlier rounds were modified later: %s" % bad[:4])


def classify_rhs(data, labels, stripes, b_on, b_off):
    """witness class of a reuse-on/off right-hand-side mismatch (naming only)"""
    import numpy as np
    try:
        Phi = ref.basis_matrix([list(s) for s in stripes], data)
        sg = ref.signs_of(labels, len(data))
        drop = sorted(set(int(np.argsort(data[:, k])[-1]) for k in range(data.shape[1])))
        keep = np.ones(len(data), dtype=bool)
        keep[drop] = False
        bdef = Phi[keep].T @ sg[keep] / len(data)
        if b_on.shape == b_off.shape == bdef.shape and np.all((np.abs(b_on - b_off) <= 1e-12) | (np.abs(b_on - bdef) <= 1e-12)):
            return "reuse-path-drops-max-sample"
    except Exception:
        pass
    return "reuse-path-other"


def case_history(ctx, case):
    import numpy as np
    d = case["d"]
    data, labels = ref.make_data(d, case["data"])
    op0, sa0, snaps0, rhs0 = run_history(ctx, case, False)
    op1, sa1, snaps1, rhs1 = run_history(ctx, case, True)
    if sa0 is None or sa1 is None:
        return
    size_tag = "forced" if case.get("forced") else ("native-large" if case["lmax"] >= 4 else "native-small")
    ctx.check("B.reuse.scheme", sorted(snaps0) == sorted(snaps1), SA, size_tag + "-rounds",
              "number of evaluation rounds differs: %s vs %s" % (sorted(snaps0), sorted(snaps1)))
    # right-hand sides, per round and grid
    bad_round = {}
    ctx.check("B.reuse.rhs", set(rhs0) == set(rhs1), DE + "calculate_B_dimension_wise", size_tag + "-grids",
              "the two runs evaluated different grids: %d vs %d" % (len(rhs0), len(rhs1)))
    for key in sorted(set(rhs0) & set(rhs1)):
        (b0, _), (b1, had_old) = rhs0[key], rhs1[key]
        ok = b0.shape == b1.shape and close(b0, b1, rel=0, abs_=1e-12)
        wc = size_tag
        if not ok:
            bad_round.setdefault(key[0], set()).add(key[1])
            wc = classify_rhs(np.asarray(op1.data, dtype=float), labels, key[1], b1, b0)
        ctx.check("B.reuse.rhs", ok, DE + "calculate_B_dimension_wise", wc,
                  "round %d, grid with %d points (%s, previous iteration present: %s): max difference %.3e"
                  % (key[0], len(b0), size_tag, had_old, np.max(np.abs(b0 - b1)) if b0.shape == b1.shape else float("nan")))
    for rnd in sorted(set(snaps0) & set(snaps1)):
        s0, s1 = snaps0[rnd], snaps1[rnd]
        ctx.check("B.reuse.scheme", s0["scheme"] == s1["scheme"], SA, size_tag, "round %d: %s vs %s" % (rnd, s0["scheme"][:4], s1["scheme"][:4]))
        if s0["scheme"] != s1["scheme"]:
            continue
        # component grids with a right-hand-side mismatch in this round (reported above by B.reuse.rhs): their surpluses, and the
        # densities of the round, are consequences and are not compared
        tainted = set(lv for lv, sk in s1["keys"].items() if sk in bad_round.get(rnd, ()))
        lvs = [lv for lv, _ in s0["scheme"]]
        bad = []
        for lv in lvs:
            a0, a1 = s0["surpluses"].get(lv), s1["surpluses"].get(lv)
            if a0 is None or a1 is None:
                bad.append((lv, "missing"))
            elif lv not in tainted and not (a0.shape == a1.shape and close(a0, a1, rel=1e-8, abs_=1e-8)):
                bad.append((lv, float(np.max(np.abs(a0 - a1))) if a0.shape == a1.shape else "shape"))
            elif lv not in tainted and a0.size:
                STATS["surplus"] = max(STATS["surplus"], float(np.max(np.abs(a0 - a1) / (1.0 + np.maximum(np.abs(a0), np.abs(a1))))))
        ctx.check("B.reuse.surpluses", not bad, DE + "solve_density_estimation_dimension_wise", size_tag, "round %d: surpluses differ on %s" % (rnd, bad[:3]))
        if rnd not in bad_round:
            if "dens" in s0 and "dens" in s1:
                ctx.check("B.reuse.density", close(s0["dens"], s1["dens"], rel=1e-8, abs_=1e-8), ML + "interpolate_points_component_grid", size_tag,
                          "round %d: max density difference %.3e" % (rnd, np.max(np.abs(s0["dens"] - s1["dens"]))))
            else:
                ctx.check("B.reuse.density", False, ML + "interpolate_points_component_grid", size_tag + "-raises",
                          "round %d: evaluation of the combined density raised: %s / %s" % (rnd, s0.get("dens_error"), s1.get("dens_error")))
    # warm cache vs cold matrix on the final grids
    for cg in sa0.scheme:
        stripes, levels, _ = sa0.get_point_coord_for_each_dim(cg.levelvector)
        stripes = [[float(x) for x in s] for s in stripes]
        if ref.num_points(stripes) > (120 if ctx.quick() else 260):
            continue
        with ctx.guard("B.run.returns", DE + "build_R_matrix_dimension_wise", size_tag):
            with quiet():
                R0 = np.asarray(op0.build_R_matrix_dimension_wise(stripes, levels), dtype=float)
                R1 = np.asarray(op1.build_R_matrix_dimension_wise(stripes, levels), dtype=float)
            tol = 1e-9 * float(np.max(np.abs(R0))) if R0.size else 0.0
            if R0.shape == R1.shape and R0.size:
                STATS["matrix"] = max(STATS["matrix"], float(np.max(np.abs(R0 - R1)) / np.max(np.abs(R0))))
            ctx.check("B.reuse.matrix", R0.shape == R1.shape and bool(np.all(np.abs(R0 - R1) <= tol)), DE + "build_R_matrix_dimension_wise",
                      size_tag, "warm-cache matrix differs from cold one: max %.3e" % (np.max(np.abs(R0 - R1)) if R0.shape == R1.shape else float("nan")))


# ------------------------------------------------------------------------------------------------
# size paths
# ------------------------------------------------------------------------------------------------
def eval_points(rng, stripes, n):
    import numpy as np
    return ref.special_points(rng, stripes, n)


def case_size_uniform(ctx, case):
    """uniform component grid: right-hand side and interpolation, small vs large implementation"""
    import numpy as np
    from sparseSpACE.ComponentGridInfo import ComponentGridInfo
    d, lv = case["d"], list(case["lv"])
    data, labels = ref.make_data(d, case["data"])
    stripes = ref.uniform_stripes(lv)
    N = ref.num_points(stripes)
    op = ref.new_de(d, data, labels, lam=case["lam"], masslumping=True)
    cg = ComponentGridInfo(lv, 1)
    ok = False
    with ctx.guard("B.run.returns", DE + "evaluate_levelvec", "uniform"):
        with quiet():
            op.initialize()
            op.evaluate_levelvec(cg)
        ok = True
    if not ok:
        return
    res = {}
    for tag, thr in (("native", None), ("small", 10 ** 9), ("large", 0)):
        if thr is not None and not ref.patch_threshold(op, "calculate_B", thr):
            ctx.note("calculate_B has no constant 200 any more")
            continue
        with ctx.guard("B.run.returns", DE + "calculate_B", "uniform-" + tag):
            with quiet():
                res[tag] = np.asarray(op.calculate_B(op.data, lv), dtype=float)
    if "small" in res and "large" in res:
        ctx.check("B.size.rhs_uniform", close(res["small"], res["large"], rel=0, abs_=1e-12), DE + "calculate_B", "small-vs-large",
                  "N=%d: max difference %.3e" % (N, np.max(np.abs(res["small"] - res["large"]))))
    if "native" in res:
        other = "large" if N < 200 else "small"
        if other in res:
            ctx.check("B.size.rhs_uniform", close(res["native"], res[other], rel=0, abs_=1e-12), DE + "calculate_B", "native-vs-" + other,
                      "N=%d: max difference %.3e" % (N, np.max(np.abs(res["native"] - res[other]))))
    # interpolation with arbitrary surpluses (the implementations must agree for any surplus vector)
    rs = np.random.RandomState(case["data"]["seed"] % (2 ** 32))
    op.surpluses[tuple(lv)] = rs.randn(N)
    X = eval_points(random.Random(case["data"]["seed"]), stripes, case.get("npts", 10))
    vals = {}
    for tag, thr in (("native", None), ("small", 10 ** 9), ("large", 0)):
        if thr is None:
            fn = type(op).interpolate_points_component_grid.__get__(op)
        else:
            g = ref.with_threshold(type(op).interpolate_points_component_grid, thr)
            if g is None:
                ctx.note("interpolate_points_component_grid has no constant 200 any more")
                continue
            fn = types.MethodType(g, op)
        with ctx.guard("B.run.returns", ML + "interpolate_points_component_grid", "uniform-" + tag):
            with quiet():
                op.grid.numPoints = 2 ** np.asarray(lv, dtype=int) - 1
                vals[tag] = np.asarray(fn(cg, None, X), dtype=float).reshape(-1)
    scale = 1e-10 * max(1.0, float(np.max(np.abs(op.surpluses[tuple(lv)]))))
    for a, b in (("small", "large"), ("native", "large" if N < 200 else "small")):
        if a in vals and b in vals:
            ok = vals[a].shape == vals[b].shape and bool(np.all(np.abs(vals[a] - vals[b]) <= scale))
            ctx.check("B.size.interpolation", ok, ML + "interpolate_points_component_grid", "uniform-%s-vs-%s" % (a, b),
                      "N=%d: max difference %.3e at point %s" % (N, np.max(np.abs(vals[a] - vals[b])) if vals[a].shape == vals[b].shape else float("nan"),
                                                                 X[int(np.argmax(np.abs(vals[a] - vals[b])))].tolist() if vals[a].shape == vals[b].shape else None))


def case_size_tree(ctx, case):
    """non-uniform stripes: right-hand side and interpolation of a dimension-wise operation, small vs large implementation"""
    import numpy as np
    from sparseSpACE.ComponentGridInfo import ComponentGridInfo
    d = case["d"]
    data, labels = ref.make_data(d, case["data"])
    stripes, levels = case["grid"]
    N = ref.num_points(stripes)
    op = ref.new_de(d, data, labels, lam=case["lam"], masslumping=True, reuse=False, global_grid=True)
    ok = False
    with ctx.guard("B.run.returns", SA, "dimwise-de-init"):
        ref.init_dimwise(op, d)
        ok = True
    if not ok:
        return
    lv = [max(l) for l in levels]
    cg = ComponentGridInfo(lv, 1)
    with ctx.guard("B.run.returns", DE + "calculate_operation_dimension_wise", "tree"):
        with quiet():
            op.calculate_operation_dimension_wise(stripes, levels, cg)
    res = {}
    for tag, thr in (("native", None), ("small", 10 ** 9), ("large", 0)):
        if thr is None:
            fn = type(op).calculate_B_dimension_wise.__get__(op)
        else:
            g = ref.with_threshold(type(op).calculate_B_dimension_wise, thr)
            if g is None:
                ctx.note("calculate_B_dimension_wise has no constant 200 any more")
                continue
            fn = types.MethodType(g, op)
        with ctx.guard("B.run.returns", DE + "calculate_B_dimension_wise", "tree-" + tag):
            with quiet():
                res[tag] = np.asarray(fn(op.data, stripes, levels), dtype=float)
    for a, b in (("small", "large"), ("native", "large" if N < 200 else "small")):
        if a in res and b in res:
            ok = res[a].shape == res[b].shape and close(res[a], res[b], rel=0, abs_=1e-12)
            ctx.check("B.size.rhs_dimwise", ok, DE + "calculate_B_dimension_wise", "%s-vs-%s" % (a, b),
                      "N=%d: max difference %.3e" % (N, np.max(np.abs(res[a] - res[b])) if res[a].shape == res[b].shape else float("nan")))
    rs = np.random.RandomState(case["data"]["seed"] % (2 ** 32))
    op.surpluses[tuple(lv)] = rs.randn(N)
    X = eval_points(random.Random(case["data"]["seed"]), stripes, case.get("npts", 10))
    vals = {}
    for tag, thr in (("native", None), ("small", 10 ** 9), ("large", 0)):
        if thr is None:
            fn = type(op).interpolate_points_component_grid.__get__(op)
        else:
            g = ref.with_threshold(type(op).interpolate_points_component_grid, thr)
            if g is None:
                ctx.note("interpolate_points_component_grid has no constant 200 any more")
                continue
            fn = types.MethodType(g, op)
        with ctx.guard("B.run.returns", ML + "interpolate_points_component_grid", "tree-" + tag):
            with quiet():
                op.grid.set_grid(stripes, levels)
                vals[tag] = np.asarray(fn(cg, stripes, X), dtype=float).reshape(-1)
    scale = 1e-10 * max(1.0, float(np.max(np.abs(op.surpluses[tuple(lv)]))))
    for a, b in (("small", "large"), ("native", "large" if N < 200 else "small")):
        if a in vals and b in vals:
            ok = vals[a].shape == vals[b].shape and bool(np.all(np.abs(vals[a] - vals[b]) <= scale))
            ctx.check("B.size.interpolation", ok, ML + "interpolate_points_component_grid", "tree-%s-vs-%s" % (a, b),
                      "N=%d: max difference %.3e" % (N, np.max(np.abs(vals[a] - vals[b])) if vals[a].shape == vals[b].shape else float("nan")))


def stripe_with(rng, n_interior, maxlevel=6):
    """bisection-tree stripe with exactly n_interior interior points"""
    pts, lev = [0.0, 0.5, 1.0], [0, 1, 0]
    while len(pts) - 2 < n_interior:
        cand = [i for i in range(len(pts) - 1) if max(lev[i], lev[i + 1]) + 1 <= maxlevel]
        i = rng.choice(cand)
        pts.insert(i + 1, 0.5 * (pts[i] + pts[i + 1]))
        lev.insert(i + 1, max(lev[i], lev[i + 1]) + 1)
    return pts, lev


THRESHOLD_SHAPES = [(13, 15), (14, 14), (10, 20), (20, 10), (14, 15), (6, 6, 6), (5, 5, 8), (4, 7, 7), (5, 8, 5)]


@ref.single_thread
def run(ctx):
    import time
    rng = ctx.rng
    quick = ctx.quick()
    tsec = {}
    t0 = time.time()
    # ---- (A) reuse on / off, small grids, native and forced
    n_hist = 40 if quick else 1200
    for k in range(n_hist):
        if ctx.out_of_time(0.35):
            break
        d = 2 if rng.random() < 0.75 else 3
        lmin, lmax = rng.choice([(1, 2), (1, 3), (2, 3)]) if d == 2 else rng.choice([(1, 2), (1, 2), (1, 3)])
        case = {"kind": "history", "d": d, "lmin": lmin, "lmax": lmax, "steps": rng.choice([1, 2, 3]) if d == 2 else rng.choice([1, 2]),
                "margin": rng.choice([0.5, 0.9]), "rebal": rng.random() < 0.5, "oracle_seed": rng.randrange(10 ** 6),
                "lam": rng.choice(ref.LAMBDAS), "ml": rng.random() < 0.25, "data": ref.random_data_desc(rng), "forced": k % 2 == 1,
                "interp_forced": k % 3 == 0, "continue_steps": rng.choice([0, 1, 2])}
        if k % 4 == 1:
            # history with a fault at a particular point: the user's (global) error estimator fails once in evaluation round 2 or 3, after the right-hand sides of
            # that evaluation were computed and before they are handed over for reuse; the run is resumed (missed seed C17_9)
            case["fault_round"] = 2 + (k // 4) % 2
            case["steps"] = max(case["steps"], 2)
        # a third is continued after the stop; the total number of refinement steps stays <= 3 (d=2) / 2 (d=3): grids grow geometrically
        if case["continue_steps"]:
            total = 3 if d == 2 else 2
            case["steps"] = max(1, min(case["steps"], total - 1))
            case["continue_steps"] = max(1, min(case["continue_steps"], total - case["steps"]))
        ctx.case(case)
        case_history(ctx, case)
    tsec["history"] = time.time() - t0
    t0 = time.time()
    # ---- (A) natively large grids
    n_large = 2 if quick else 24
    for k in range(n_large):
        if ctx.out_of_time(0.6):
            break
        lmin, lmax = (4, 4) if k % 2 == 0 else (3, 4)
        case = {"kind": "history", "d": 2, "lmin": lmin, "lmax": lmax, "steps": 1 if k % 2 == 0 else 2, "margin": 0.9,
                "rebal": rng.random() < 0.5, "oracle_seed": rng.randrange(10 ** 6), "lam": rng.choice(ref.LAMBDAS), "ml": quick or k % 5 != 4,
                "data": ref.random_data_desc(rng, mmax=20), "forced": False, "interp_forced": False, "continue_steps": 1}
        ctx.case(case)
        case_history(ctx, case)
    tsec["history_large"] = time.time() - t0
    t0 = time.time()
    # ---- (B) size paths, uniform
    lvs = []
    for d in (1, 2, 3):
        for lv in itertools.product(range(1, 5), repeat=d):
            n = 1
            for l in lv:
                n *= 2 ** l - 1
            if n <= 400:
                lvs.append((d, lv, n))
    rng.shuffle(lvs)
    big = [x for x in lvs if x[2] >= 200]
    small = [x for x in lvs if x[2] < 200]
    sel = (small[:40] + big[:4]) if quick else lvs * 5
    for d, lv, n in sel:
        if ctx.out_of_time(0.8):
            break
        case = {"kind": "size_uniform", "d": d, "lv": list(lv), "lam": rng.choice(ref.LAMBDAS),
                "data": ref.random_data_desc(rng, mmax=25 if n >= 200 else 40), "npts": 8 if n >= 200 else 14}
        ctx.case(case)
        case_size_uniform(ctx, case)
    tsec["size_uniform"] = time.time() - t0
    t0 = time.time()
    # ---- (B) size paths, bisection-tree grids incl. sizes around the constant
    n_tree = 48 if quick else 1500
    shapes = list(THRESHOLD_SHAPES)
    for k in range(n_tree):
        if ctx.out_of_time(0.97):
            break
        if k % 4 == 3:
            shape = shapes[(k // 4) % len(shapes)]
            d = len(shape)
            grid = [stripe_with(rng, n) for n in shape]
            stripes, levels = [g[0] for g in grid], [g[1] for g in grid]
        else:
            d = rng.choice([1, 2, 2, 3])
            stripes, levels = ref.random_tree_grid(rng, d, big=(d >= 2 and rng.random() < 0.15))
        n = ref.num_points(stripes)
        case = {"kind": "size_tree", "d": d, "grid": [stripes, levels], "lam": rng.choice(ref.LAMBDAS),
                "data": ref.random_data_desc(rng, mmax=20 if n >= 150 else 40), "npts": 8 if n >= 150 else 14}
        ctx.case(case)
        case_size_tree(ctx, case)
    tsec["size_tree"] = time.time() - t0
    ctx.note("section seconds: %s" % {k: round(v, 1) for k, v in tsec.items()})
    ctx.note("largest accepted reuse on/off deviation: surpluses %.2e (tolerance 1e-8), matrix %.2e of the largest entry (tolerance 1e-9)"
             % (STATS["surplus"], STATS["matrix"]))


@ref.single_thread
def replay(ctx, case):
    {"history": case_history, "size_uniform": case_size_uniform, "size_tree": case_size_tree}[case["kind"]](ctx, case)
