"""native replay handlers for C19 counter-models (Classification bookkeeping)"""
from bounded.replay_models import handler


@handler("C19.test_data")
def c19_test_data(inp, obligation):
    """a real, small Classification: two calls of test_data with partly unlabelled data; earlier classes stay, classes and tested samples stay aligned,
    unlabelled samples are set aside, the returned summary counts exactly the newly tested samples"""
    import numpy as np
    from sparseSpACE.DEMachineLearning import DataSet, Classification
    rng = np.random.RandomState(0)
    X = np.vstack([rng.normal(0.3, 0.05, (40, 2)), rng.normal(0.7, 0.05, (40, 2))])
    y = np.array([0] * 40 + [1] * 40, dtype=np.int64)
    c = Classification(DataSet((X, y)), split_percentage=0.8, split_evenly=True, shuffle_data=False)
    c.perform_classification(masslumping=False, lambd=0.01, minimum_level=1, maximum_level=3, print_metrics=False)
    bad = []
    for rnd in range(2):
        cls0 = np.array(c.get_calculated_classes_testset()).copy()
        n_test0, n_om0 = c.get_testing_data().get_length(), c.get_omitted_data().get_length()
        T = np.vstack([rng.normal(0.3, 0.04, (4, 2)), rng.normal(0.7, 0.04, (4, 2))])
        lab = np.array([0, 0, -1, 0, 1, -1, 1, 1], dtype=np.int64)
        summary = c.test_data(DataSet((T, lab)), print_output=False, print_removed=False)
        cls1 = np.array(c.get_calculated_classes_testset())
        n_lab = int(np.sum(lab >= 0))
        if len(cls1) != len(cls0) + n_lab or not np.array_equal(cls1[:len(cls0)], cls0):
            bad.append("round %d: classes of earlier data changed or wrong number appended (%d -> %d, %d labelled samples tested)" % (rnd, len(cls0), len(cls1), n_lab))
        if c.get_testing_data().get_length() != len(cls1):
            bad.append("round %d: %d tested samples recorded for %d classes" % (rnd, c.get_testing_data().get_length(), len(cls1)))
        if c.get_omitted_data().get_length() != n_om0 + int(np.sum(lab < 0)):
            bad.append("round %d: unlabelled samples not set aside (%d -> %d)" % (rnd, n_om0, c.get_omitted_data().get_length()))
        if summary.get("Total mappings") != n_lab:
            bad.append("round %d: summary counts %r samples, %d were tested" % (rnd, summary.get("Total mappings"), n_lab))
        try:
            c.evaluate()
        except Exception as e:  # noqa
            bad.append("round %d: evaluate() after test_data raised %s: %s" % (rnd, type(e).__name__, e))
    return bool(bad), {"violations": bad[:4]}
