"""native replay handlers for C19 counter-models (Classification bookkeeping)"""
from bounded.replay_models import handler


@handler("C19.test_data")
def c19_test_data(inp, obligation):
    """a real, small Classification: two calls of test_data with partly unlabelled data; earlier classes stay, classes and tested samples stay aligned,
    unlabelled samples are set aside, the returned summary counts exactly the newly tested samples"""
    import numpy as np
    from sparseSpACE.DEMachineLearning import DataSet, Classification
    rng = np.random.RandomState(0)
    X = np.vstack([rng.normal(0.3, 0.05, (40, 2)), rng.normal(0.7, 0.05, (40, 2))])
    y = np.array([0] * 40 + [1] * 40, dtype=np.int64)
    c = Classification(DataSet((X, y)), split_percentage=0.8, split_evenly=True, shuffle_data=False)
    c.perform_classification(masslumping=False, lambd=0.01, minimum_level=1, maximum_level=3, print_metrics=False)
    bad = []
    for rnd in range(2):
        cls0 = np.array(c.get_calculated_classes_testset()).copy()
        n_test0, n_om0 = c.get_testing_data().get_length(), c.get_omitted_data().get_length()
        T = np.vstack([rng.normal(0.3, 0.04, (4, 2)), rng.normal(0.7, 0.04, (4, 2))])
        lab = np.array([0, 0, -1, 0, 1, -1, 1, 1], dtype=np.int64)
        summary = c.test_data(DataSet((T, lab)), print_output=False, print_removed=False)
        cls1 = np.array(c.get_calculated_classes_testset())
        n_lab = int(np.sum(lab >= 0))
        if len(cls1) != len(cls0) + n_lab or not np.array_equal(cls1[:len(cls0)], cls0):
            bad.append("round %d: classes of earlier data changed or wrong number appended (%d -> %d, %d labelled samples tested)" % (rnd, len(cls0), len(cls1), n_lab))
        if c.get_testing_data().get_length() != len(cls1):
            bad.append("round %d: %d tested samples recorded for %d classes" % (rnd, c.get_testing_data().get_length(), len(cls1)))
        if c.get_omitted_data().get_length() != n_om0 + int(np.sum(lab < 0)):
            bad.append("round %d: unlabelled samples not set aside (%d -> %d)" % (rnd, n_om0, c.get_omitted_data().get_length()))
        if summary.get("Total mappings") != n_lab:
            bad.append("round %d: summary counts %r samples, %d were tested" % (rnd, summary.get("Total mappings"), n_lab))
        try:
            c.evaluate()
        except Exception as e:  # noqa
            bad.append("round %d: evaluate() after test_data raised %s: %s" % (rnd, type(e).__name__, e))
    return bool(bad), {"violations": bad[:4]}


@handler("C19.learn_twice")
def c19_learn_twice(inp, obligation):
    """an object whose first learning attempt aborts while the last class is learned (user error calculator raising at its last invocation), then learns again:
    the estimator table must hold exactly one estimator per class"""
    import numpy as np
    from sparseSpACE.DEMachineLearning import DataSet, Classification
    from sparseSpACE.ErrorCalculator import ErrorCalculatorSingleDimVolumeGuided
    from bounded.api import quiet

    class Fault(Exception):
        pass

    class Counting(ErrorCalculatorSingleDimVolumeGuided):
        def __init__(self, k):
            super().__init__()
            self.n, self.k = 0, k

        def calc_error(self, *a, **kw):
            self.n += 1
            if self.n == self.k:
                raise Fault()
            return super().calc_error(*a, **kw)
    rng = np.random.RandomState(4)
    X = np.vstack([rng.normal(0.3, 0.08, size=(25, 2)), rng.normal(0.7, 0.08, size=(25, 2))])
    y = np.array([0] * 25 + [1] * 25)
    bad = []

    def make():
        np.random.seed(7)
        return Classification(DataSet((X.copy(), y.copy()), name="S"), split_percentage=0.8, split_evenly=True, shuffle_data=True)

    def learn(obj, ec):
        with quiet():
            obj.perform_classification_dimension_wise(masslumping=True, lambd=0.0, minimum_level=1, maximum_level=2, max_evaluations=20, print_metrics=False, error_calculator=ec)
    twin, cnt = make(), Counting(0)
    learn(twin, cnt)
    obj = make()
    try:
        learn(obj, Counting(cnt.n))
        return False, {"note": "the injected fault did not surface"}
    except Fault:
        pass
    learn(obj, Counting(0))
    n_est = len(obj.get_density_estimation_results()[0])
    if n_est != 2:
        bad.append("after an aborted and a repeated learning call the object holds %d estimators for 2 classes" % n_est)
    with quiet():
        got = set(int(c) for c in obj._classificate(obj.get_learning_data()))
    if not got <= {0, 1}:
        bad.append("classes assigned to the learning samples: %s (labels are 0 and 1)" % sorted(got))
    return bool(bad), {"violations": bad}
