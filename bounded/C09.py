"""C09 bounded stand-in: runtime contracts on the real global 1-D quadrature rules of sparseSpACE.Grid
(GlobalTrapezoidalGrid incl. modified basis, GlobalSimpsonGrid, GlobalHighOrderGrid, GlobalLagrangeGrid, GlobalBSplineGrid)
on refinement-tree grids, observed at grid.set_grid(points, levels); grid.weights; grid.integrate(f, levelvec, a, b).

Oracle (independent of the library): own piecewise integration of the piecewise-linear interpolant (three boundary variants),
closed-form integrals of monomials.
"""
import math

import numpy as np

from bounded.api import quiet

TOL = 1e-10
INTERVALS = [(0.0, 1.0), (-1.0, 3.0), (-1.0, 1.0), (-2.5, -0.5), (0.1, 0.7)]

BOUND = ("1-D point sets of refinement trees on 5 intervals [a,b] ([0,1], [-1,3], [-1,1], [-2.5,-0.5], [0.1,0.7]): every dyadic tree of "
         "depth 1..4 (676 trees, 3..17 points; quick: the 25 trees of depth<=3 on every interval for every configuration, each of the "
         "other 651 trees on one interval (rotating with the tree index) for the trapezoidal/Simpson/Lagrange/BSpline configurations, "
         "every 4th of them for HighOrder, every 8th for the run-only configurations; thorough: every tree on every interval for every "
         "configuration), plus seeded random trees (quick 30, thorough 600) with up to 40 points: strongly graded towards a random "
         "target (depth<=12), uniformly random leaves, and "
         "weighted-midpoint trees (split fraction in [0.2,0.8]; not for BSpline, whose own get_mid_point is the arithmetic midpoint), "
         "each optionally on top of a full base of depth 0..4; a few 2-D tensor cases (two different trees). Configurations: "
         "GlobalTrapezoidalGrid boundary on / off / off+modified; GlobalSimpsonGrid boundary on (off: runs only); GlobalHighOrderGrid "
         "max_degree p in {1,2,3,5} x split_up on/off, boundary on (off and off+modified: runs only); GlobalLagrangeGrid p in {1,2,3,5} "
         "and GlobalBSplineGrid p in {1,3,5}, boundary on (off and off+modified: runs only). Exactness of the non-trapezoidal rules is "
         "demanded with boundary points only; 'enough points' = the full dyadic level-L tree is contained (all leaves at depth >= L) "
         "with L = p-1 (Lagrange), L = floor(log2 p)+1 (BSpline, the regime of the library's own test); Simpson: order 2 for odd point "
         "counts; HighOrder: constants and linears on every tree, degree <= max_degree m (the default is 5; MAIN_CONFS 1,2,3,5 plus anchor cases m = 4,6,7,8 in quick / 1..8 in thorough) on complete dyadic "
         "trees of depth D >= ceil((m-1)/2) (quick: D <= 3 on every interval, D = 4 on two, D = 5 for m >= 6 on one; thorough: D <= 5 everywhere), where the unchanged tree reaches it. "
         "History (round 2; second interval for the small trees, every 25th of the other trees, every 5th random tree, the depth-3 anchors): the grid "
         "object is used for the mirrored tree (same number of points) first; the Function object is integrated by a GlobalTrapezoidalGrid first")
BOUND += "; fault / magnitude additions: 2-D cases: a set_grid request refused for an unsorted stripe, then corrected, compared with a fresh object"
RULE = BOUND + ("; one case = (configuration, a, b, points, levels); non-trivial = at least 3 points; tolerances: weights 1e-11*max(b-a, max|w_ref|), "
                "integrals 1e-10 * int_a^b |x|^k (or * sum |w_i f(x_i)| for the non-polynomial integrand)")
BUDGET = {"quick": 60.0, "thorough": 800.0}

CLAUSES = {
    "B.total": "set_grid and integrate return normally for every configuration and every refinement-tree grid with >= 3 points",
    "B.shape": "after set_grid: coordinates == given points (boundary off: without first and last), len(weights) == len(coordinates) == numPoints == levelToNumPoints, levels stripped consistently",
    "B.trap.weights": "GlobalTrapezoidalGrid weights == weights of the exact integral of the piecewise-linear interpolant: boundary on; boundary off = zero boundary values (interior weights unchanged); modified basis = linear extrapolation from the two outermost interior points (constant if only one)",
    "B.trap.nonneg": "GlobalTrapezoidalGrid, unmodified: every weight >= 0",
    "B.trap.pointset_only": "GlobalTrapezoidalGrid weights do not change when the level array is replaced, when the grid object was used for another grid before, or when compute_weights is called directly (list or ndarray)",
    "B.trap.integrate": "GlobalTrapezoidalGrid.integrate(f) == sum_i wref_i f(x_i) for a non-polynomial f, and == closed form for constants (boundary on / modified) and linear f (boundary on; modified with >= 2 interior points or an arithmetic-midpoint single point)",
    "B.ho.const_linear": "boundary on: Simpson, HighOrder, Lagrange, BSpline integrate 1 and x exactly (nodal rules also through their weights)",
    "B.ho.order": "boundary on, enough points: Simpson (odd n) degree <= 2, Lagrange degree <= p (all leaves at depth >= p-1), BSpline degree <= p (all leaves at depth >= floor(log2 p)+1), HighOrder with max_degree m in 1..8 degree <= m on complete dyadic trees of depth >= ceil((m-1)/2) (equidistant 2^D+1 points; the regime in which the moment-matched weights are non-negative)",
    "B.history.reuse": "history cases (boundary on and trapezoidal variants): the same grid object is first given another tree with the same number of points (the mirrored tree), then the tree of the case: weights are bitwise those of a fresh object, integrate gives the same result as the fresh object; a second integrate on the same object (grids up to 9 points) gives the same result",
    "B.history.shared_function": "history cases: the same Function object is integrated by a GlobalTrapezoidalGrid on the same tree first; the rule under test then gives the same integral as with a fresh Function (the exactness clauses are evaluated on the fresh one), and every value in the Function cache equals own evaluation",
}

S_TRAP = "sparseSpACE.Grid:GlobalTrapezoidalGrid.compute_weights"
S_SET = "sparseSpACE.Grid:GlobalGrid.set_grid"
S_SIMPSON = "sparseSpACE.Grid:GlobalSimpsonGrid.compute_1D_quad_weights"
S_HO = "sparseSpACE.Grid:GlobalHighOrderGrid.get_1D_weights_and_order"
S_LAG = "sparseSpACE.Grid:GlobalLagrangeGrid.compute_1D_quad_weights"
S_BSP = "sparseSpACE.Grid:GlobalBSplineGrid.compute_1D_quad_weights"
SITES = {"trapezoidal": S_TRAP, "simpson": S_SIMPSON, "highorder": S_HO, "lagrange": S_LAG, "bspline": S_BSP}


# ------------------------------------------------------------------------------------------- trees
def all_trees(depth):
    """None = leaf, (left, right) = split node; all trees of depth <= depth"""
    if depth == 0:
        return [None]
    sub = all_trees(depth - 1)
    return [None] + [(l, r) for l in sub for r in sub]


def tree_grid(t, a, b):
    """points (python floats, as the library produces them) and levels of the tree with arithmetic midpoints"""
    pts, lvs = [a], [0]

    def rec(t, s, e, lvl):
        if t is None:
            return
        m = 0.5 * (s + e)
        rec(t[0], s, m, lvl + 1)
        pts.append(m)
        lvs.append(lvl)
        rec(t[1], m, e, lvl + 1)
    rec(t, a, b, 1)
    pts.append(b)
    lvs.append(0)
    return pts, lvs


def random_grid(rng, a, b, npts, mode, base, maxdepth=12):
    leaves = [(a, b, 0)]
    pts = {a: 0, b: 0}

    def split(i):
        s, e, dp = leaves.pop(i)
        m = 0.5 * (s + e) if mode != "weighted" else s + rng.uniform(0.2, 0.8) * (e - s)
        pts[m] = dp + 1
        leaves.insert(i, (m, e, dp + 1))
        leaves.insert(i, (s, m, dp + 1))
    for _ in range(base):
        for i in reversed(range(len(leaves))):
            split(i)
    target = rng.uniform(a, b)
    while len(pts) < npts:
        cand = [i for i, (s, e, dp) in enumerate(leaves) if dp < maxdepth]
        if mode == "graded" and rng.random() < 0.85:
            c2 = [i for i in cand if leaves[i][0] <= target <= leaves[i][1]]
            cand = c2 or cand
        if not cand:
            break
        split(rng.choice(cand))
    xs = sorted(pts)
    return [float(x) for x in xs], [int(pts[x]) for x in xs]


def min_leaf_depth(levels):
    """depth of the shallowest leaf interval = max(level of its two end points) (own derivation from the tree structure)"""
    return min(max(levels[i], levels[i + 1]) for i in range(len(levels) - 1))


# ------------------------------------------------------------------------------------------- oracle
def ref_trap_weights(x, variant):
    """weights of f -> integral over [x0, x_{n-1}] of the piecewise linear interpolant; own piecewise integration"""
    x = [float(v) for v in x]
    n = len(x)
    if variant in ("on", "off"):
        w = [0.0] * n
        for i in range(n - 1):
            h = x[i + 1] - x[i]
            w[i] += 0.5 * h
            w[i + 1] += 0.5 * h
        return np.array(w if variant == "on" else w[1:-1])
    # modified basis: nodal values only at the interior points y, linear extrapolation towards a and b
    a, b = x[0], x[-1]
    y = x[1:-1]
    m = len(y)
    if m == 1:
        return np.array([b - a])
    w = [0.0] * m

    def add_line(j0, j1, s, e):
        # integral over [s,e] of the line through (y[j0], f_j0), (y[j1], f_j1) = (e-s) * value at the midpoint
        c = 0.5 * (s + e)
        t = (c - y[j0]) / (y[j1] - y[j0])
        w[j0] += (e - s) * (1 - t)
        w[j1] += (e - s) * t
    if m == 2:
        add_line(0, 1, a, b)
        return np.array(w)
    add_line(0, 1, a, y[1])
    for k in range(1, m - 2):
        add_line(k, k + 1, y[k], y[k + 1])
    add_line(m - 2, m - 1, y[m - 2], b)
    return np.array(w)


def mono_int(k, a, b):
    return (b ** (k + 1) - a ** (k + 1)) / (k + 1)


def mono_abs_int(k, a, b):
    if a >= 0 or b <= 0:
        return abs(mono_int(k, a, b))
    return (abs(a) ** (k + 1) + abs(b) ** (k + 1)) / (k + 1)


def smooth(x):
    return 1.0 / (1.5 + 0.3 * x) + math.sin(2.0 * x)


def make_function(kmax, with_smooth=False):
    from sparseSpACE.Function import Function

    class Poly(Function):
        def output_length(self):
            return kmax + 1 + int(with_smooth)

        def eval(self, c):
            x = float(c[0])
            r = [x ** k for k in range(kmax + 1)]
            if with_smooth:
                r.append(smooth(x))
            return r
    return Poly()


# ------------------------------------------------------------------------------------------- configurations
def make_grid(conf, a, b):
    from sparseSpACE import Grid as G
    f, bnd, mod = conf["family"], conf["boundary"], conf["modified"]
    if f == "trapezoidal":
        return G.GlobalTrapezoidalGrid(a, b, boundary=bnd, modified_basis=mod)
    if f == "simpson":
        return G.GlobalSimpsonGrid(a, b, boundary=bnd, modified_basis=mod)
    if f == "highorder":
        return G.GlobalHighOrderGrid(a, b, boundary=bnd, modified_basis=mod, max_degree=conf["p"], split_up=conf["split_up"])
    if f == "lagrange":
        return G.GlobalLagrangeGrid(a, b, boundary=bnd, modified_basis=mod, p=conf["p"])
    if f == "bspline":
        return G.GlobalBSplineGrid(a, b, boundary=bnd, modified_basis=mod, p=conf["p"])
    raise ValueError(f)


def conf(family, boundary=True, modified=False, p=None, split_up=None):
    return {"family": family, "boundary": boundary, "modified": modified, "p": p, "split_up": split_up}


TRAP_CONFS = [conf("trapezoidal"), conf("trapezoidal", False), conf("trapezoidal", False, True)]
MAIN_CONFS = ([conf("simpson")] +
              [conf("highorder", p=p, split_up=s) for p in (1, 2, 3, 5) for s in (True, False)] +
              [conf("lagrange", p=p) for p in (1, 2, 3, 5)] +
              [conf("bspline", p=p) for p in (1, 3, 5)])
RUN_ONLY_CONFS = ([conf("simpson", False)] +
                  [conf("highorder", False, m, p=5, split_up=s) for m in (False, True) for s in (True, False)] +
                  [conf("lagrange", False, m, p=p) for m in (False, True) for p in (1, 3)] +
                  [conf("bspline", False, m, p=p) for m in (False, True) for p in (1, 3)])


def variant_of(c):
    return "on" if c["boundary"] else ("mod" if c["modified"] else "off")


def tag_of(c):
    t = c["family"]
    v = variant_of(c)
    if v != "on" and c["family"] != "trapezoidal":
        return t + {"off": "-bndoff", "mod": "-modified"}[v]       # run-only configurations: one class per family and variant
    if c["family"] == "highorder":
        t += "-deg%d%s" % (c["p"], "" if c["split_up"] else "-nosplit")
    elif c["p"]:
        t += "-p%d" % c["p"]
    return t + {"on": "", "off": "-bndoff", "mod": "-modified"}[v]


def attempt(ctx, clause, site, tag, fn, strict_selfcheck=False):
    """Run fn(); an exception of the real code is a violation of `clause` (witness class carries the exception type)."""
    import warnings
    try:
        with quiet(), warnings.catch_warnings(), np.errstate(all="ignore"):
            warnings.simplefilter("ignore")
            r = fn()
        ctx.check(clause, True, site, tag)
        return True, r
    except (KeyboardInterrupt, SystemExit, MemoryError):
        raise
    except Exception as e:  # noqa
        import traceback
        wc = "%s-raises" % tag if tag.endswith(("-bndoff", "-modified")) else "%s-raises-%s" % (tag, type(e).__name__)
        if strict_selfcheck and isinstance(e, AssertionError):
            wc = "%s-selfcheck-strict" % tag
        ctx.check(clause, False, site, wc, "%s: %s\n%s" % (type(e).__name__, e, traceback.format_exc(limit=5)))
        return False, None


# ------------------------------------------------------------------------------------------- one case
def run_case(ctx, case):
    c = case["conf"]
    a, b = case["a"], case["b"]
    pts, lvs = case["points"], case["levels"]           # lists per dimension
    d = len(a)
    fam, var, tag, site = c["family"], variant_of(c), tag_of(c), SITES[c["family"]]

    def build():
        g = make_grid(c, list(a), list(b))
        g.set_grid([list(p) for p in pts], [list(l) for l in lvs])
        return g
    # GlobalSimpsonGrid asserts its own moments with a relative tolerance of 1e-14: this fires for a zero first moment (a == -b) and,
    # through rounding, sporadically on non-dyadic / deep random grids (known defect, own class).  On the enumerated dyadic trees of
    # the other intervals it never fires on the unchanged tree, so there an AssertionError keeps its own witness class.
    strict = fam == "simpson" and var == "on" and (a[0] == -b[0] or case.get("kind") != "dyadic")
    ok, grid = attempt(ctx, "B.total", site, tag, build, strict_selfcheck=strict)
    if not ok:
        return
    # ---- shape
    good = True
    msg = ""
    for i in range(d):
        exp_c = list(pts[i]) if c["boundary"] else list(pts[i])[1:-1]
        exp_l = list(lvs[i]) if c["boundary"] else list(lvs[i])[1:-1]
        got_c = [float(v) for v in grid.coordinate_array[i]]
        if not (got_c == exp_c and len(grid.weights[i]) == len(exp_c) and int(grid.numPoints[i]) == len(exp_c)
                and int(grid.levelToNumPoints([0] * d)[i]) == len(exp_c) and [int(v) for v in grid.levels[i]] == exp_l
                and [float(v) for v in grid.coordinate_array_with_boundary[i]] == list(pts[i])):
            good = False
            msg += "dim %d: coords %d/%d weights %d numPoints %s; " % (i, len(got_c), len(exp_c), len(grid.weights[i]), grid.numPoints[i])
    ctx.check("B.shape", good, S_SET, tag + "-shape", msg)
    if not good:
        return
    if d > 1:
        return run_case_nd(ctx, case, grid)
    x, lv, a0, b0 = pts[0], lvs[0], a[0], b[0]
    n = len(x)
    w = np.asarray(grid.weights[0], dtype=float)
    xs = np.asarray(grid.coordinate_array[0], dtype=float)

    if fam == "trapezoidal":
        wref = ref_trap_weights(x, var)
        tolw = 1e-11 * max(b0 - a0, float(np.max(np.abs(wref))) if len(wref) else 0.0)
        ctx.check("B.trap.weights", len(w) == len(wref) and bool(np.all(np.abs(w - wref) <= tolw)), S_TRAP, tag + "-weights",
                  "weights %s, reference %s" % (w, wref))
        if var != "mod":
            ctx.check("B.trap.nonneg", bool(np.all(w >= 0)), S_TRAP, tag + "-negative", "weights %s" % w)
        check_pointset_only(ctx, case, grid, w)
        # integrate
        F = make_function(1, with_smooth=True)
        ok, I = attempt(ctx, "B.total", "sparseSpACE.Integrator:IntegratorArbitraryGridScalarProduct.__call__", tag + "-integrate",
                        lambda: np.asarray(make_and_integrate(c, a, b, pts, lvs, F), dtype=float).ravel())
        if ok:
            fx = np.array([smooth(v) for v in xs])
            want = float(wref @ fx) if len(wref) else 0.0
            scale = float(np.abs(wref) @ np.abs(fx)) if len(wref) else 1.0
            good = I.shape == (3,) and abs(I[2] - want) <= TOL * scale
            detail = "smooth: %r vs reference %r; " % (I[2] if I.shape == (3,) else I, want)
            amp = max(1.0, float(np.sum(np.abs(wref))) / (b0 - a0)) if len(wref) else 1.0      # extrapolation weights amplify rounding
            if good and var in ("on", "mod"):
                good = abs(I[0] - (b0 - a0)) <= TOL * amp * (b0 - a0)
                detail += "constant: %r vs %r; " % (I[0], b0 - a0)
                lin_ok = var == "on" or n - 2 >= 2 or (n == 3 and x[1] == 0.5 * (a0 + b0))
                if good and lin_ok:
                    good = abs(I[1] - mono_int(1, a0, b0)) <= TOL * amp * mono_abs_int(1, a0, b0)
                    detail += "linear: %r vs %r" % (I[1], mono_int(1, a0, b0))
            ctx.check("B.trap.integrate", good, S_TRAP, tag + "-integrate", detail)
            if case.get("history") and I.shape == (3,):
                history_checks(ctx, case, 1, I[:2], w)
        return

    if var != "on":
        # run-only configurations: integrate must return as well
        F = make_function(1)
        attempt(ctx, "B.total", site, tag, lambda: make_and_integrate(c, a, b, pts, lvs, F))
        return

    # ---- exactness of the high-order / hierarchical rules (boundary on)
    L = min_leaf_depth(lv)
    order = 1
    if fam == "simpson" and n % 2 == 1:
        order = 2
    if fam == "lagrange" and L >= c["p"] - 1:
        order = c["p"]
    if fam == "bspline" and L >= int(math.log2(c["p"])) + 1:
        order = c["p"]
    if fam == "highorder":
        D = max(lv)
        complete = n == 2 ** D + 1 and L == D and bool(np.all(np.abs(np.diff(np.asarray(x, dtype=float)) - (b0 - a0) / (n - 1)) <= 1e-12 * (b0 - a0)))
        if complete and D >= math.ceil((c["p"] - 1) / 2):
            order = c["p"]
    F = make_function(order)
    ok, I = attempt(ctx, "B.total", site, tag, lambda: np.asarray(make_and_integrate(c, a, b, pts, lvs, F), dtype=float).ravel())
    if not ok:
        return
    exact = np.array([mono_int(k, a0, b0) for k in range(order + 1)])
    scale = np.array([mono_abs_int(k, a0, b0) for k in range(order + 1)])
    err = np.abs(I - exact) if I.shape == exact.shape else np.full(order + 1, np.inf)
    if fam in ("simpson", "highorder"):
        q = np.array([float(w @ xs ** k) for k in range(order + 1)])
        err = np.maximum(err, np.abs(q - exact))
    ctx.check("B.ho.const_linear", bool(np.all(err[:2] <= TOL * scale[:2])), site, tag + "-const-linear",
              "n=%d, integrate %s, exact %s" % (n, I[:2], exact[:2]))
    if order >= 2:
        ctx.check("B.ho.order", bool(np.all(err <= TOL * scale)), site, tag + "-order",
                  "n=%d, min leaf depth %d, order %d: integrate %s, exact %s" % (n, L, order, I, exact))
    if case.get("history"):
        history_checks(ctx, case, order, I, w)


def points_from_levels(levels, a, b):
    """points of the dyadic tree whose in-order level sequence is `levels` (own reconstruction: the unique point of level l inside a node is its midpoint)"""
    pos = [None] * len(levels)
    pos[0], pos[-1] = a, b

    def rec(lo, hi, s, e, lvl):
        ms = [m for m in range(lo + 1, hi) if levels[m] == lvl]
        if not ms:
            return
        m = ms[0]
        pos[m] = 0.5 * (s + e)
        rec(lo, m, s, pos[m], lvl + 1)
        rec(m, hi, pos[m], e, lvl + 1)
    rec(0, len(levels) - 1, a, b, 1)
    assert all(v is not None for v in pos)
    return pos


def history_checks(ctx, case, order, I_fresh, w_fresh):
    """object reuse (another tree of the same size first) and Function reuse (a trapezoidal grid integrated the same Function before)"""
    from sparseSpACE.Grid import GlobalTrapezoidalGrid
    c, a, b, pts, lvs = case["conf"], case["a"], case["b"], case["points"], case["levels"]
    tag, site = tag_of(c), SITES[c["family"]]
    x, lv, a0, b0 = pts[0], lvs[0], a[0], b[0]
    mlv = list(reversed(lv))
    mirrored = points_from_levels(mlv, a0, b0)            # the mirrored tree, with arithmetic midpoints (same number of points)
    out = {}

    def reuse():
        g = make_grid(c, list(a), list(b))
        g.set_grid([list(mirrored)], [mlv])
        g.set_grid([list(x)], [list(lv)])
        out["w"] = np.asarray(g.weights[0], dtype=float)
        out["I1"] = np.asarray(g.integrate(make_function(order), [max(lv)], list(a), list(b)), dtype=float).ravel()
        out["I2"] = out["I1"] if len(x) > 9 else np.asarray(g.integrate(make_function(order), [max(lv)], list(a), list(b)), dtype=float).ravel()
    ok, _ = attempt(ctx, "B.total", site, tag + "-reuse", reuse)
    sc = np.array([mono_abs_int(k, a0, b0) for k in range(order + 1)])
    amp = max(1.0, float(np.sum(np.abs(w_fresh))) / (b0 - a0)) if len(w_fresh) else 1.0
    if ok:
        problems = []
        if out["w"].shape != w_fresh.shape or not np.array_equal(out["w"], w_fresh):
            problems.append("weights after reuse differ from a fresh object")
        for nm in ("I1", "I2"):
            if out[nm].shape != I_fresh.shape or np.any(np.abs(out[nm] - I_fresh) > 1e-13 * amp * sc):
                problems.append("%s integrate after reuse %s vs fresh %s" % ("first" if nm == "I1" else "second", out[nm], I_fresh))
        ctx.check("B.history.reuse", not problems, site, tag + "-same-object-other-tree-first", "; ".join(problems))

    def shared():
        F = make_function(order)
        t = GlobalTrapezoidalGrid(list(a), list(b), boundary=True)
        t.set_grid([list(x)], [list(lv)])
        t.integrate(F, [max(lv)], list(a), list(b))
        out["Is"] = np.asarray(make_and_integrate(c, a, b, pts, lvs, F), dtype=float).ravel()
        out["F"] = F
    ok, _ = attempt(ctx, "B.total", site, tag + "-shared-function", shared)
    if ok:
        F = out["F"]
        keys = list(F.f_dict.keys())
        cached = np.array([np.asarray(F.f_dict[k], dtype=float).ravel() for k in keys])
        own = np.array([[float(k[0]) ** j for j in range(order + 1)] for k in keys])
        okc = cached.shape == own.shape and bool(np.all(np.abs(cached - own) <= 1e-12 * np.maximum(1.0, np.abs(own))))
        oki = out["Is"].shape == I_fresh.shape and bool(np.all(np.abs(out["Is"] - I_fresh) <= 1e-13 * amp * sc))
        ctx.check("B.history.shared_function", okc and oki, site, tag + "-after-trapezoidal-same-function",
                  "cache equals eval: %s; integral with the shared Function %s vs fresh %s" % (okc, out["Is"], I_fresh))


def make_and_integrate(c, a, b, pts, lvs, F):
    g = make_grid(c, list(a), list(b))
    g.set_grid([list(p) for p in pts], [list(l) for l in lvs])
    return g.integrate(F, [max(l) for l in lvs], list(a), list(b))


def check_pointset_only(ctx, case, grid, w):
    from sparseSpACE.Grid import GlobalTrapezoidalGrid
    c, a, b, pts = case["conf"], case["a"], case["b"], case["points"]
    x = pts[0]
    n = len(x)
    res = {}

    def others():
        g2 = make_grid(c, list(a), list(b))
        g2.set_grid([list(x)], [[0] * n])                                   # all levels zero
        res["zero"] = np.asarray(g2.weights[0], dtype=float)
        g2.set_grid([list(x)], [list(range(n, 0, -1))])                     # nonsense levels
        res["rev"] = np.asarray(g2.weights[0], dtype=float)
        other = [a[0] + (b[0] - a[0]) * t for t in (0.0, 0.3, 0.35, 0.9, 1.0)]
        g2.set_grid([other], [[0, 1, 2, 1, 0]])                             # another grid in between
        g2.set_grid([list(x)], [list(case["levels"][0])])
        res["reuse"] = np.asarray(g2.weights[0], dtype=float)
        full = np.asarray(GlobalTrapezoidalGrid.compute_weights(list(x), a[0], b[0], c["modified"]), dtype=float)
        full2 = np.asarray(GlobalTrapezoidalGrid.compute_weights(np.array(x), a[0], b[0], c["modified"]), dtype=float)
        res["static"] = full if c["boundary"] else full[1:-1]
        res["static_np"] = full2 if c["boundary"] else full2[1:-1]
    ok, _ = attempt(ctx, "B.total", S_TRAP, tag_of(c) + "-pointset", others)
    if ok:
        bad = [k for k, v in res.items() if not (v.shape == w.shape and np.array_equal(v, w))]
        ctx.check("B.trap.pointset_only", not bad, S_TRAP, tag_of(c) + "-pointset", "weights differ for variants %s" % bad)


def run_case_nd(ctx, case, grid):
    """2-D tensor: constants and the product of linears are integrated exactly (boundary on / trapezoidal modified)."""
    from sparseSpACE.Function import Function
    c, a, b = case["conf"], case["a"], case["b"]
    d = len(a)
    var, tag, site = variant_of(c), tag_of(c), SITES[c["family"]]

    class Prod(Function):
        def output_length(self):
            return 2

        def eval(self, co):
            return [1.0, float(np.prod([2.0 + (i + 1) * float(v) for i, v in enumerate(co)]))]
    ok, I = attempt(ctx, "B.total", site, tag + "-2d", lambda: np.asarray(
        make_and_integrate(c, a, b, case["points"], case["levels"], Prod()), dtype=float).ravel())
    if not ok or var == "off":
        return
    vol = float(np.prod([b[i] - a[i] for i in range(d)]))
    ex = float(np.prod([2.0 * (b[i] - a[i]) + (i + 1) * mono_int(1, a[i], b[i]) for i in range(d)]))
    sc = float(np.prod([2.0 * (b[i] - a[i]) + (i + 1) * mono_abs_int(1, a[i], b[i]) for i in range(d)]))
    amp = float(np.prod([max(1.0, float(np.sum(np.abs(np.asarray(grid.weights[i], dtype=float)))) / (b[i] - a[i])) for i in range(d)]))
    lin_ok = var == "on" or all(len(p) - 2 >= 2 for p in case["points"])
    good = I.shape == (2,) and abs(I[0] - vol) <= TOL * amp * vol and (not lin_ok or abs(I[1] - ex) <= TOL * amp * sc)
    clause = "B.trap.integrate" if c["family"] == "trapezoidal" else "B.ho.const_linear"
    ctx.check(clause, good, site, tag + "-2d", "integrate %s, exact [%r, %r]" % (I, vol, ex))
    # history with a refused request: the object holds the case's grid, is then asked for another grid with an UNSORTED first stripe (refused by set_grid's own
    # check), and finally for that other grid with the stripe corrected: its weights are those of a fresh object (missed seed C09_9: per-dimension memo half-updated
    # by the refused call)
    pts, lvs = case["points"], case["levels"]
    if all(len(p) >= 3 for p in pts):
        mlv = [list(reversed(l)) for l in lvs]
        mir = [points_from_levels(mlv[i], a[i], b[i]) for i in range(d)]
        out = {}

        def refused_then_retry():
            try:    # a configuration that cannot even set up the other grid on a fresh object is judged by its own cases, not here
                fresh0 = make_grid(c, list(a), list(b))
                fresh0.set_grid([list(m) for m in mir], [list(l) for l in mlv])
            except Exception:  # noqa
                return
            g = make_grid(c, list(a), list(b))
            g.set_grid([list(p) for p in pts], [list(l) for l in lvs])
            bad0 = list(mir[0])
            bad0[0], bad0[1] = bad0[1], bad0[0]
            try:
                g.set_grid([bad0] + [list(m) for m in mir[1:]], [list(l) for l in mlv])
                out["refused"] = False
            except AssertionError:
                out["refused"] = True
            g.set_grid([list(m) for m in mir], [list(l) for l in mlv])
            fresh = make_grid(c, list(a), list(b))
            fresh.set_grid([list(m) for m in mir], [list(l) for l in mlv])
            out["w"] = [np.asarray(g.weights[i], dtype=float) for i in range(d)]
            out["wf"] = [np.asarray(fresh.weights[i], dtype=float) for i in range(d)]
        ok2, _ = attempt(ctx, "B.total", site, tag + "-2d-refused-then-retry", refused_then_retry)
        if ok2 and out.get("refused"):
            same = all(x.shape == y.shape and np.array_equal(x, y) for x, y in zip(out["w"], out["wf"]))
            ctx.check("B.history.reuse", same, site, tag + "-2d-corrected-request-after-a-refused-one",
                      "weights after (grid, refused request with an unsorted stripe, corrected request) %s differ from a fresh object's %s" % ([w.tolist() for w in out["w"]], [w.tolist() for w in out["wf"]]))


# ------------------------------------------------------------------------------------------- enumeration
def do_case(ctx, c, a, b, pts, lvs, kind, history=False):
    case = {"conf": c, "a": [float(v) for v in a], "b": [float(v) for v in b], "points": pts, "levels": lvs, "kind": kind, "history": bool(history)}
    ctx.case(case, nontrivial=all(len(p) >= 3 for p in pts))
    run_case(ctx, case)


def run(ctx):
    quick = ctx.quick()
    ctx.exhaustive = True
    trees = [t for t in all_trees(4) if t is not None]          # 676
    small = [t for t in all_trees(3) if t is not None]          # 25
    nI = len(INTERVALS)
    cheap = [c for c in MAIN_CONFS if c["family"] != "highorder"]
    costly = [c for c in MAIN_CONFS if c["family"] == "highorder"]
    # ---- anchor cases: HighOrder with every max_degree 1..8 (default is 5) on the complete trees of depth 1..4 (quick) / 1..5, every interval;
    #      quick adds depth 5 (33 points) for the orders 6..8 on one interval
    for ni, (a, b) in enumerate(INTERVALS):
        for D in range(1, 5 if quick else 6):
            n = 2 ** D
            pts = [a + (b - a) * i / n for i in range(n)] + [b]
            lvs = [0] + [D - ((i & -i).bit_length() - 1) for i in range(1, n)] + [0]
            if quick and D == 4 and ni not in (0, 3):
                continue
            for m in ((4, 6, 7, 8) if quick else range(1, 9)):      # 1, 2, 3, 5 are part of MAIN_CONFS and meet the complete trees below
                for split in (True, False):
                    do_case(ctx, conf("highorder", p=m, split_up=split), [a], [b], [pts], [lvs], "complete", history=(D == 3 and ni == 1))
    if quick:
        a, b = INTERVALS[1]
        pts = [a + (b - a) * i / 32 for i in range(32)] + [b]
        lvs = [0] + [5 - ((i & -i).bit_length() - 1) for i in range(1, 32)] + [0]
        for m in (6, 7, 8):
            for split in (True, False):
                do_case(ctx, conf("highorder", p=m, split_up=split), [a], [b], [pts], [lvs], "complete")
    # ---- small trees: every configuration on every interval (history clauses on the second interval)
    for ni, (a, b) in enumerate(INTERVALS):
        for t in small:
            pts, lvs = tree_grid(t, a, b)
            for c in TRAP_CONFS + MAIN_CONFS + RUN_ONLY_CONFS:
                do_case(ctx, c, [a], [b], [pts], [lvs], "dyadic", history=(ni == 1))
    # ---- all 676 trees.  quick: interval rotates with the tree index, HighOrder on every 4th tree, run-only configurations on
    #      every 8th tree; thorough: every interval, every configuration
    for k, t in enumerate(trees):
        if t in small:
            continue
        ivs = [INTERVALS[k % nI]] if quick else INTERVALS
        for (a, b) in ivs:
            if ctx.out_of_time(0.75):
                ctx.exhaustive = False
                break
            pts, lvs = tree_grid(t, a, b)
            confs = TRAP_CONFS + cheap
            if not quick or k % 4 == 0:
                confs = confs + costly
            if not quick or k % 8 == 0:
                confs = confs + RUN_ONLY_CONFS
            for c in confs:
                do_case(ctx, c, [a], [b], [pts], [lvs], "dyadic", history=(k % 25 == 0 and (a, b) != INTERVALS[2]))
    # ---- seeded random trees
    nrand = 30 if quick else 600
    for r in range(nrand):
        if ctx.out_of_time(0.92):
            break
        mode = ("graded", "uniform", "weighted")[r % 3]
        a, b = INTERVALS[ctx.rng.randrange(nI)]
        base = ctx.rng.choice([0, 1, 2, 2, 3, 4])
        npts = ctx.rng.randint(max(3, 2 ** base + 1), 40)
        pts, lvs = random_grid(ctx.rng, a, b, npts, mode, base)
        for c in TRAP_CONFS + MAIN_CONFS + (RUN_ONLY_CONFS if r % 3 == 0 else []):
            if mode == "weighted" and c["family"] == "bspline":
                continue
            do_case(ctx, c, [a], [b], [pts], [lvs], mode, history=(r % 5 == 0 and c["family"] != "simpson"))
    # ---- 2-D tensor cases
    n2 = 5 if quick else 40
    for r in range(n2):
        if ctx.out_of_time(0.98):
            break
        (a0, b0), (a1, b1) = INTERVALS[r % nI], INTERVALS[(r + 1) % nI]
        p0, l0 = random_grid(ctx.rng, a0, b0, ctx.rng.randint(3, 9), "uniform", 1)
        p1, l1 = random_grid(ctx.rng, a1, b1, ctx.rng.randint(5, 12), "graded", 2)
        for c in TRAP_CONFS + [conf("simpson"), conf("highorder", p=5, split_up=True), conf("lagrange", p=2), conf("bspline", p=3)]:
            do_case(ctx, c, [a0, a1], [b0, b1], [p0, p1], [l0, l1], "2d")


    ctx.note("not demanded (see notes/C09.md): exactness of the non-trapezoidal rules without boundary points. Observed on the unchanged tree: "
             "GlobalHighOrderGrid(boundary=False) returns weights normalised to sum 2 (fallback branch not rescaled by (b-a)/2); the modified "
             "BSpline basis integrates linears exactly only if both boundary-adjacent level-2 points exist")


def replay(ctx, case):
    run_case(ctx, case)
