"""C02 bounded stand-in: runtime contracts on the real StandardCombi (TrapezoidalGrid + Integration / multilinear interpolation).

Oracle (independent of the library): own enumeration of the sparse grid {x : sum_i max(lmin, level(x_i)) <= lmax + (d-1) lmin},
own evaluation and closed-form integrals of the hierarchical hat functions, own point counts.
"""
import itertools
import math

import numpy as np

from bounded.api import quiet

TOL = 1e-10
BOXES = [([0.0, 0.0, 0.0], [1.0, 1.0, 1.0]),
         ([-2.5, 0.25, 2.0], [-0.5, 1.0, 2.75]),
         ([-3.0, -3.0, -3.0], [7.3, math.pi, 1.0]),
         # interior grid coordinates of one dimension coincide with domain bounds of another (1 = b_0 is interior in dim 1, 0 = a_0 is interior in dim 2)
         ([0.0, 0.0, -1.0], [1.0, 2.0, 1.0]),
         # far away from the origin: grid spacings are far below 1e-5 * |a| (numpy's default relative tolerance), see the fixed points_not_zero defect
         ([100000.0, 100000.0, 100000.0], [100001.0, 100002.0, 100000.5])]

BOUND = ("real StandardCombi with TrapezoidalGrid + Integration; d in {1,2,3}; 1<=lmin<=lmax<=4 (d=3: lmax<=3); 5 boxes (unit, negative/non-unit "
         "anisotropic, [-3,7.3]x[-3,pi]x[-3,1], [0,1]x[0,2]x[-1,1] whose interior coordinates coincide with bounds of other dimensions, [1e5,1e5+1]x[1e5,1e5+2]x[1e5,1e5+0.5] far from the origin); boundary points on/off; quick: every (d,lmin,lmax,boundary) on one box (rotating) and "
         "(lmin,lmax) in {(1,2),(2,3)} on every box; thorough: every combination. Per configuration ALL nodal unit functions and ALL "
         "hierarchical hat functions of the sparse grid and one smooth function are used (one vector-valued Function with 2N+1 outputs, N = number "
         "of sparse-grid points); evaluation points: every sparse-grid point, 24 fixed off-grid probe points (incl. points on coarse grid lines and near "
         "the boundary), and the full tensor grid of level-lmax coordinates for interpolate_grid. Plus (clause B.counts only) the "
         "configuration where the box handed to StandardCombi ends one ulp below the b of the grid (DESIGN 9-4). History (round 2): every standard case asks "
         "the same instance twice (second perform_operation / __call__ / get_points_and_weights, stability of the reported result array); kind "
         "'after-coefficient-update' (quick 7, thorough all (d,lmin,lmax)): two CombiScheme and two StandardCombi of the same (dim,lmin,lmax) are created "
         "first, object sharing is checked, their coefficients are overwritten in place, then a fresh instance runs every clause")
BOUND += "; fault / magnitude additions: an extra function component that is +inf on the box boundary when the grids carry no boundary points"
RULE = BOUND + ("; one case = (d, lmin, lmax, box, boundary); non-trivial = the scheme has >= 2 component grids (d>=2 and lmin<lmax); tolerances: interpolated "
                "values abs 1e-10 (values in [0,1]), integrals rel 1e-10, coefficient sums exact")
BUDGET = {"quick": 60.0, "thorough": 800.0}

CLAUSES = {
    "B.total": "perform_operation, __call__, interpolate_grid, get_points_component_grid, get_points_and_weights(_component_grid) return normally",
    "B.nodal.call": "point-wise __call__: the combined interpolant of every nodal unit function e_p equals delta_pq at every sparse-grid point q; a smooth function that is non-zero on the boundary is reproduced at every sparse-grid point",
    "B.nodal.grid": "interpolate_grid on the tensor grid of level-lmax coordinates: same (unit functions and smooth function) at every tensor point that is a sparse-grid point",
    "B.hat.interp": "every hierarchical hat function with level in the index set is reproduced at the off-grid probe points and at all sparse-grid points (__call__) and at every point of the tensor grid (interpolate_grid)",
    "B.hat.integral": "perform_operation integrates every such hat function exactly (closed form prod_i h_i, h_i/2 for boundary hats)",
    "B.points.union": "the union of get_points_component_grid over the scheme == the independently enumerated sparse grid; every component grid has distinct points on the level-l lattice",
    "B.points.coeffsum": "for every sparse-grid point the coefficients of the component grids containing it sum to exactly 1",
    "B.counts": "get_num_points_component_grid == len(get_points_component_grid) == len(points) == len(weights) of get_points_and_weights_component_grid == own count prod(2^l_i + 1 [-2 without boundary])",
    "B.history.idempotent": "the same instance asked twice gives the same answers: second perform_operation == first, second __call__ == first, second get_points_and_weights == first; the result array reported by the first perform_operation still holds the reported values after all later queries and the second run",
    "B.history.scheme_ownership": "scheme objects are owned by their instance: getCombiScheme of two CombiScheme instances (and the schemes of two StandardCombi) of the same (dim,lmin,lmax) share no ComponentGridInfo object and no level-vector memory; after the coefficients of one scheme were overwritten in place (as Regression.optimize_coefficients does), a later instance has the closed-form coefficients (-1)^q binom(d-1,q) and passes every other clause (witness classes '...-after-foreign-coefficient-update')",
    "B.weights.consistent": "get_points_and_weights: len(points) == len(weights) == sum of the component counts; summing coefficient*weight per sparse-grid point gives the integral that perform_operation reports for the nodal unit function of that point; sum_k W_k phi(P_k) == closed-form integral of every hat function",
}

S_CALL = "sparseSpACE.StandardCombi:StandardCombi.__call__"
S_GRID = "sparseSpACE.StandardCombi:StandardCombi.interpolate_grid"
S_PERF = "sparseSpACE.StandardCombi:StandardCombi.perform_operation"
S_PTS = "sparseSpACE.StandardCombi:StandardCombi.get_points_component_grid"
S_PW = "sparseSpACE.StandardCombi:StandardCombi.get_points_and_weights"
S_NUM = "sparseSpACE.Grid:TrapezoidalGrid1D.level_to_num_points_1d"


# ------------------------------------------------------------------------------------------- oracle
def level_of_index(i, L, lmin):
    """hierarchical level (>= lmin) of the point with index i on the level-L lattice (0 <= i <= 2^L)"""
    if i == 0 or i == 2 ** L:
        return lmin
    k = L
    while i % 2 == 0:
        i //= 2
        k -= 1
    return max(lmin, k)


def sparse_grid(d, lmin, lmax, boundary):
    """list of (multi-index on the level-lmax lattice, level vector) of the sparse grid of the truncated combination technique"""
    L = lmax
    rng = range(0, 2 ** L + 1) if boundary else range(1, 2 ** L)
    bound = lmax + (d - 1) * lmin
    out = []
    for idx in itertools.product(rng, repeat=d):
        lv = tuple(level_of_index(i, L, lmin) for i in idx)
        if sum(lv) <= bound:
            out.append((idx, lv))
    return out


class Oracle:
    def __init__(self, d, lmin, lmax, boundary, a, b):
        self.d, self.lmin, self.lmax, self.boundary = d, lmin, lmax, boundary
        self.a, self.b = np.array(a, dtype=float), np.array(b, dtype=float)
        self.L = lmax
        self.h = (self.b - self.a) / 2 ** self.L
        self.sg = sparse_grid(d, lmin, lmax, boundary)
        self.N = len(self.sg)
        self.idx = np.array([s[0] for s in self.sg], dtype=int).reshape(self.N, d)
        self.lv = np.array([s[1] for s in self.sg], dtype=int).reshape(self.N, d)
        self.table = -np.ones((2 ** self.L + 1,) * d, dtype=int)
        self.table[tuple(self.idx.T)] = np.arange(self.N)
        self.centers = np.where(self.idx == 2 ** self.L, self.b, self.a + self.idx * self.h)      # the last lattice point is b exactly
        self.width = (self.b - self.a) / 2.0 ** self.lv                       # half width of the hat per dimension
        onb = (self.idx == 0) | (self.idx == 2 ** self.L)
        self.hat_integral = np.prod(np.where(onb, 0.5, 1.0) * self.width, axis=1)

    def lattice_index(self, X):
        """(index array, on-lattice mask) of points X (n x d) on the level-L lattice"""
        X = np.asarray(X, dtype=float).reshape(-1, self.d)
        I = np.rint((X - self.a) / self.h).astype(int)
        ok = np.all((I >= 0) & (I <= 2 ** self.L), axis=1)
        Ic = np.clip(I, 0, 2 ** self.L)
        ok &= np.all(np.abs(X - (self.a + Ic * self.h)) <= 1e-9 * (self.b - self.a), axis=1)
        return Ic, ok

    def sparse_number(self, X):
        """number j of the sparse-grid point equal to X[k], or -1"""
        I, ok = self.lattice_index(X)
        j = self.table[tuple(I.T)]
        return np.where(ok, j, -1)

    def nodal(self, X):
        j = self.sparse_number(X)
        out = np.zeros((len(j), self.N))
        m = j >= 0
        out[np.nonzero(m)[0], j[m]] = 1.0
        return out

    def hats(self, X):
        X = np.asarray(X, dtype=float).reshape(-1, self.d)
        t = 1.0 - np.abs(X[:, None, :] - self.centers[None, :, :]) / self.width[None, :, :]
        return np.prod(np.clip(t, 0.0, None), axis=2)

    def fine_coordinates(self):
        return [np.linspace(self.a[i], self.b[i], 2 ** self.L + 1) for i in range(self.d)]

    def probes(self):
        """24 fixed off-grid probe points (fractions of the box), some on coarse grid lines / close to the boundary"""
        fr = []
        for k in range(1, 17):
            fr.append([(k * 0.6180339887498949 + 0.137 * i) % 1.0 for i in range(self.d)])
        for k in range(4):
            f = [((k + 1) * 0.7548776662466927 + 0.31 * i) % 1.0 for i in range(self.d)]
            f[k % self.d] = 0.5                       # on the level-1 grid line
            fr.append(f)
        for k in range(2):
            f = [((k + 1) * 0.5698402909980532 + 0.23 * i) % 1.0 for i in range(self.d)]
            f[k % self.d] = 0.25 if k == 0 else 0.75
            fr.append(f)
        fr.append([1e-7] * self.d)
        fr.append([1.0 - 1e-7] * self.d)
        return [tuple(float(self.a[i] + f[i] * (self.b[i] - self.a[i])) for i in range(self.d)) for f in fr]


def smooth(X):
    """an 'arbitrary' function: smooth, not in the hat space, non-zero on the boundary"""
    X = np.asarray(X, dtype=float)
    return np.prod(1.3 + np.sin(2.1 * X + np.arange(X.shape[1])), axis=1, keepdims=True)


def make_function(orc):
    from sparseSpACE.Function import Function

    class NodalAndHats(Function):
        def output_length(self):
            return 2 * orc.N + 2

        def eval(self, coordinates):
            X = np.asarray(coordinates, dtype=float).reshape(1, orc.d)
            return np.hstack([orc.nodal(X), orc.hats(X), smooth(X), singular(orc, X)])[0]

        def eval_vectorized(self, coordinates):
            C = np.asarray(coordinates, dtype=float)
            X = C.reshape(-1, orc.d)
            return np.hstack([orc.nodal(X), orc.hats(X), smooth(X), singular(orc, X)]).reshape(C.shape[:-1] + (2 * orc.N + 2,))
    return NodalAndHats()


def singular(orc, X):
    """last component: the smooth function again -- but, when the grids carry no boundary points, +infinity ON the boundary of the box (an integrable end-point
    singularity such as 1/sqrt(x(1-x))): without boundary points the combination technique uses zero boundary values, so what the function does there must not
    matter at any sparse-grid point (missed seed C02_9: mesh values multiplied by a 0/1 mask, 0 * inf = nan)"""
    v = smooth(X)
    if not orc.boundary:
        onb = np.any(np.isclose(X, orc.a, rtol=0, atol=1e-13 * np.maximum(1.0, np.abs(orc.a))) | np.isclose(X, orc.b, rtol=0, atol=1e-13 * np.maximum(1.0, np.abs(orc.b))), axis=1)
        v = np.where(onb[:, None], np.inf, v)
    return v


def own_count(levelvec, boundary):
    return int(np.prod([2 ** int(l) + 1 - (0 if boundary else 2) for l in levelvec]))


# ------------------------------------------------------------------------------------------- one case
def run_case(ctx, case):
    from sparseSpACE.StandardCombi import StandardCombi
    from sparseSpACE.GridOperation import Integration
    from sparseSpACE.Grid import TrapezoidalGrid
    d, lmin, lmax, boundary = case["d"], case["lmin"], case["lmax"], case["boundary"]
    a, b = case["a"], case["b"]
    tag = "bnd%s" % ("on" if boundary else "off")
    if case.get("np_flag"):
        tag += "-npflag"
    if case.get("kind") == "box-ulp":
        return run_box_ulp(ctx, case)
    if case.get("pre_levels"):
        tag += "-after-other-levels-on-the-same-instance"
    restore = None
    if case.get("kind") == "after-coefficient-update":
        restore = foreign_history(ctx, case)
        tag += "-after-foreign-coefficient-update"
    try:
        run_standard(ctx, case, tag)
    finally:
        if restore:
            restore()


def closed_form_coefficient(levelvec, d, lmin, lmax):
    q = lmax + (d - 1) * lmin - int(sum(int(x) for x in levelvec))
    return float((-1) ** q * math.comb(d - 1, q)) if 0 <= q <= d - 1 else None


def foreign_history(ctx, case):
    """History: other instances with the same (dim, lmin, lmax) exist, and the coefficients / level vectors of THEIR scheme objects are
    overwritten in place (the library does this itself in Regression.optimize_coefficients).  Returns a function undoing the overwrite."""
    from sparseSpACE.StandardCombi import StandardCombi
    from sparseSpACE.GridOperation import Integration
    from sparseSpACE.Grid import TrapezoidalGrid
    from sparseSpACE.Function import FunctionLinear
    from sparseSpACE.combiScheme import CombiScheme
    d, lmin, lmax, a, b = case["d"], case["lmin"], case["lmax"], case["a"], case["b"]
    site = "sparseSpACE.combiScheme:CombiScheme.getCombiScheme"
    st = {}
    with ctx.guard("B.total", site, "scheme-history-raises"):
        with quiet():
            s1 = CombiScheme(d).getCombiScheme(lmin, lmax, do_print=False)
            s2 = CombiScheme(d).getCombiScheme(lmin, lmax, do_print=False)
            combis = []
            for _ in range(2):
                op = Integration(FunctionLinear([1.0] * d), grid=TrapezoidalGrid(np.array(a), np.array(b), boundary=True), dim=d)
                c = StandardCombi(np.array(a), np.array(b), operation=op, print_output=False)
                c.perform_operation(lmin, lmax)
                combis.append(c)
            st["schemes"] = [s1, s2, combis[0].scheme, combis[1].scheme]
    if "schemes" not in st:
        return None
    schemes = st["schemes"]
    shared = []
    for i in range(len(schemes)):
        for j in range(i + 1, len(schemes)):
            ids = {id(g) for g in schemes[i]} & {id(g) for g in schemes[j]}
            mem = any(np.shares_memory(np.asarray(g.levelvector), np.asarray(h.levelvector)) for g in schemes[i] for h in schemes[j]
                      if isinstance(g.levelvector, np.ndarray) and isinstance(h.levelvector, np.ndarray))
            if ids or mem:
                shared.append((i, j, len(ids), mem))
    same_values = all(sorted((tuple(int(x) for x in g.levelvector), float(g.coefficient)) for g in sc) ==
                      sorted((tuple(int(x) for x in g.levelvector), float(g.coefficient)) for g in schemes[0]) for sc in schemes)
    ctx.check("B.history.scheme_ownership", not shared and same_values, site, "scheme-objects-shared-between-instances",
              "pairs of schemes (0,1: CombiScheme; 2,3: StandardCombi) sharing objects (count) / level-vector memory: %s; equal values: %s" % (shared, same_values))
    # overwrite in place, remember how to undo
    saved = []
    for sc in schemes:
        for k, g in enumerate(sc):
            saved.append((g, g.coefficient, np.array(g.levelvector).copy()))
    for sc in schemes:
        for k, g in enumerate(sc):
            g.coefficient = 7.5 + k          # (level vectors are left alone: memory sharing is already checked above)
    # a later instance must have the closed-form scheme
    with ctx.guard("B.total", site, "scheme-history-raises"):
        with quiet():
            later = CombiScheme(d).getCombiScheme(lmin, lmax, do_print=False)
        bad = [(list(map(int, g.levelvector)), g.coefficient) for g in later
               if closed_form_coefficient(g.levelvector, d, lmin, lmax) != float(g.coefficient) or min(int(x) for x in g.levelvector) < lmin]
        ctx.check("B.history.scheme_ownership", not bad, site, "later-scheme-after-foreign-coefficient-update",
                  "level vectors / coefficients of a fresh scheme that differ from (-1)^q binom(d-1,q): %s" % bad[:4])

    def restore():
        for g, c, lv in saved:
            g.coefficient = c
            if isinstance(g.levelvector, np.ndarray):
                g.levelvector[...] = lv
    return restore


def run_standard(ctx, case, tag):
    from sparseSpACE.StandardCombi import StandardCombi
    from sparseSpACE.GridOperation import Integration
    from sparseSpACE.Grid import TrapezoidalGrid
    d, lmin, lmax, boundary = case["d"], case["lmin"], case["lmax"], case["boundary"]
    a, b = case["a"], case["b"]
    orc = Oracle(d, lmin, lmax, boundary, a, b)
    N = orc.N
    st = {}
    with ctx.guard("B.total", S_PERF, tag + "-perform-raises"):
        with quiet():
            F = make_function(orc)
            # the flag as a numpy boolean (what `x < y` on numpy scalars or an entry of a flag array gives) must mean the same as the python bool
            flag = np.bool_(boundary) if case.get("np_flag") else boundary
            grid = TrapezoidalGrid(np.array(a), np.array(b), boundary=flag)
            op = Integration(F, grid=grid, dim=d)
            combi = StandardCombi(np.array(a), np.array(b), operation=op, print_output=False)
            for (l0, l1) in case.get("pre_levels", []):
                # history: the SAME instance (and its scheme object) first served other start levels (missed seed C02_8: scheme diagonals cached without lmin)
                combi.perform_operation(l0, l1)
            scheme, _err, result = combi.perform_operation(lmin, lmax)
            st["result_live"] = result                                             # the object handed to the caller, NOT copied
            st["result"] = np.array(result, dtype=float).ravel()                   # copy taken at report time
    if "result" not in st:
        return
    result = st["result"]
    ctx.check("B.hat.integral", result.shape == (2 * N + 2,) and bool(np.all(np.abs(result[N:2 * N] - orc.hat_integral) <= TOL * orc.hat_integral)),
              S_PERF, tag + "-hat-integral", "worst relative error %s" % (
                  np.max(np.abs(result[N:2 * N] - orc.hat_integral) / orc.hat_integral) if result.shape == (2 * N + 2,) else result.shape))

    # ---- point-wise interpolation at all sparse-grid points and the probes
    sp = [tuple(float(v) for v in c) for c in orc.centers]
    probes = orc.probes()
    with ctx.guard("B.total", S_CALL, tag + "-call-raises"):
        with quiet():
            st["vals"] = np.asarray(combi(sp + probes), dtype=float)
    if "vals" in st:
        vals = st["vals"]
        ok_shape = vals.shape == (N + len(probes), 2 * N + 2)
        dev = np.abs(vals[:N, :N] - np.eye(N)) if ok_shape else None
        if ok_shape:
            gs = smooth(orc.centers)[:, 0]
            ctx.check("B.nodal.call", bool(np.all(np.abs(vals[:N, 2 * N] - gs) <= TOL * 2.3 ** d)), S_CALL, tag + "-arbitrary-function",
                      "smooth function not reproduced at the sparse-grid points: worst deviation %s" % np.max(np.abs(vals[:N, 2 * N] - gs)))
            with np.errstate(invalid="ignore"):
                okx = bool(np.all(np.abs(vals[:N, 2 * N + 1] - gs) <= TOL * 2.3 ** d))
            ctx.check("B.nodal.call", okx, S_CALL, tag + "-function-singular-on-the-boundary",
                      "function with infinite values on the box boundary (grids without boundary points) not reproduced at the interior sparse-grid points: %s" % vals[:N, 2 * N + 1][:6])
        ctx.check("B.nodal.call", ok_shape and bool(np.all(dev <= TOL)), S_CALL, tag + "-nodal",
                  "shape %s; worst deviation from identity %s at (point,function) %s" % (
                      vals.shape, dev.max() if ok_shape else None, np.unravel_index(np.argmax(dev), dev.shape) if ok_shape else None))
        if ok_shape:
            want = orc.hats(np.array(sp + probes))
            devh = np.abs(vals[:, N:2 * N] - want)
            ctx.check("B.hat.interp", bool(np.all(devh <= TOL)), S_CALL, tag + "-hat-call",
                      "worst deviation %s at (point,function) %s" % (devh.max(), np.unravel_index(np.argmax(devh), devh.shape)))

    # ---- interpolation on a tensor grid
    coords = orc.fine_coordinates()
    with ctx.guard("B.total", S_GRID, tag + "-grid-raises"):
        with quiet():
            st["gvals"] = np.asarray(combi.interpolate_grid(coords), dtype=float)
    if "gvals" in st:
        g = st["gvals"]
        T = np.array(list(itertools.product(*coords))).reshape(-1, d)          # own enumeration: first dimension slowest
        ok_shape = g.shape == (len(T), 2 * N + 2)
        if ok_shape:
            j = orc.sparse_number(T)
            m = j >= 0
            dev = np.abs(g[m][:, :N] - np.eye(N)[j[m]])
            with np.errstate(invalid="ignore"):
                dev = np.hstack([dev, np.abs(g[m][:, 2 * N:] - smooth(T[m])) / 2.3 ** d])
                dev = np.where(np.isnan(dev), np.inf, dev)
            ctx.check("B.nodal.grid", int(m.sum()) == N and bool(np.all(dev <= TOL)), S_GRID, tag + "-nodal-grid",
                      "sparse points found in tensor grid %d of %d, worst deviation %s" % (m.sum(), N, dev.max() if dev.size else None))
            devh = np.abs(g[:, N:2 * N] - orc.hats(T))
            ctx.check("B.hat.interp", bool(np.all(devh <= TOL)), S_GRID, tag + "-hat-grid", "worst deviation %s" % devh.max())
        else:
            ctx.check("B.nodal.grid", False, S_GRID, tag + "-grid-shape", "shape %s, expected %s" % (g.shape, (len(T), 2 * N + 2)))

    # ---- points of the component grids, coefficient sums, counts
    coeff = np.zeros(N)
    union = set()
    okpts, okcount = True, True
    msgp, msgc = "", ""
    total = 0
    with ctx.guard("B.total", S_PTS, tag + "-points-raises"):
        with quiet():
            for cg in combi.scheme:
                lv = [int(x) for x in cg.levelvector]
                pts = combi.get_points_component_grid(lv)
                pts2, w2 = combi.get_points_and_weights_component_grid(lv)
                announced = int(combi.get_num_points_component_grid(lv, False))
                P = np.array([tuple(p) for p in pts], dtype=float).reshape(-1, d)
                cnt = own_count(lv, boundary)
                total += cnt
                if not (announced == len(pts) == len(pts2) == len(w2) == cnt):
                    okcount = False
                    msgc += "level %s: announced %d, points %d / %d, weights %d, own count %d; " % (lv, announced, len(pts), len(pts2), len(w2), cnt)
                I, on = orc.lattice_index(P) if len(P) else (np.zeros((0, d), dtype=int), np.zeros(0, dtype=bool))
                stride = [2 ** (lmax - l) for l in lv]
                on_level = bool(np.all(on)) and all(np.all(I[:, i] % stride[i] == 0) for i in range(d))
                j = orc.table[tuple(I.T)] if len(P) else np.zeros(0, dtype=int)
                keys = set(map(tuple, I.tolist()))
                if not (on_level and len(keys) == len(P)):
                    okpts = False
                    msgp += "level %s: points off the level lattice or repeated; " % lv
                union |= keys
                jj = j[j >= 0]
                coeff[jj] += cg.coefficient
            st["pts_done"] = True
    if st.get("pts_done"):
        want = set(map(tuple, orc.idx.tolist()))
        ctx.check("B.points.union", okpts and union == want, S_PTS, tag + "-union",
                  msgp + "missing %s, extra %s" % (sorted(want - union)[:3], sorted(union - want)[:3]))
        ctx.check("B.points.coeffsum", bool(np.all(coeff == 1.0)), "sparseSpACE.combiScheme:CombiScheme.getCombiScheme", tag + "-coeffsum",
                  "coefficient sums %s at sparse points %s" % (coeff[coeff != 1.0][:3], orc.idx[coeff != 1.0][:3].tolist()))
        ctx.check("B.counts", okcount, S_NUM, tag + "-counts", msgc)

    # ---- combined points and weights
    with ctx.guard("B.total", S_PW, tag + "-weights-raises"):
        with quiet():
            Pw, Ww = combi.get_points_and_weights()
            st["P"], st["W"] = np.asarray(Pw, dtype=float).reshape(-1, d), np.asarray(Ww, dtype=float).ravel()
    if "P" in st and st.get("pts_done"):
        P, W = st["P"], st["W"]
        good = len(P) == len(W) == total
        msg = "len(points) %d, len(weights) %d, sum of component counts %d; " % (len(P), len(W), total)
        if good:
            j = orc.sparse_number(P)
            good = bool(np.all(j >= 0))
            if good:
                per_point = np.zeros(N)
                np.add.at(per_point, j, W)
                vol = float(np.prod(orc.b - orc.a))
                e1 = np.max(np.abs(per_point - result[:N])) / vol
                hatq = orc.hats(P).T @ W
                e2 = np.max(np.abs(hatq - orc.hat_integral) / orc.hat_integral)
                e3 = abs(float(smooth(P)[:, 0] @ W) - result[2 * N]) / (vol * 2.3 ** d)
                good = e1 <= 1e-12 and e2 <= TOL and e3 <= 1e-12
                msg += ("combined weight vs integral of nodal function: %s (rel. to volume); hat quadrature rel. error %s; "
                        "sum W g(P) vs reported integral of the smooth function: %s" % (e1, e2, e3))
            else:
                msg += "points outside the sparse grid"
        ctx.check("B.weights.consistent", good, S_PW, tag + "-points-weights", msg)

    # ---- history on the same instance: ask everything a second time
    with ctx.guard("B.total", S_PERF, tag + "-second-run-raises"):
        with quiet():
            live_after_queries = np.array(st["result_live"], dtype=float).ravel()
            vals2 = np.asarray(combi(sp + probes), dtype=float) if "vals" in st and N <= 120 else None     # (costly for large N)
            P2, W2 = combi.get_points_and_weights() if "P" in st else (None, None)
            _s2, _e2, result2 = combi.perform_operation(lmin, lmax)
            result2 = np.array(result2, dtype=float).ravel()
            live_after_rerun = np.array(st["result_live"], dtype=float).ravel()
            st["second"] = True
    if st.get("second"):
        scale = float(np.prod(orc.b - orc.a)) * 2.3 ** d
        problems = []
        if not np.array_equal(live_after_queries, result):
            problems.append("reported result array changed by later queries")
        if not np.array_equal(live_after_rerun, result):
            problems.append("reported result array changed by the second perform_operation")
        if result2.shape != result.shape or np.max(np.abs(result2 - result)) > 1e-13 * scale:
            problems.append("second perform_operation differs by %s" % (np.max(np.abs(result2 - result)) if result2.shape == result.shape else result2.shape))
        if vals2 is not None and (vals2.shape != st["vals"].shape or np.max(np.abs(vals2 - st["vals"])) > 1e-13 * 2.3 ** d):
            problems.append("second __call__ differs")
        if P2 is not None and not (np.array_equal(np.asarray(P2, dtype=float).reshape(-1, d), st["P"]) and np.array_equal(np.asarray(W2, dtype=float).ravel(), st["W"])):
            problems.append("second get_points_and_weights differs")
        ctx.check("B.history.idempotent", not problems, S_PERF, tag + "-same-instance-twice", "; ".join(problems))


def run_box_ulp(ctx, case):
    """The box handed to StandardCombi ends one ulp below the grid's b in the last dimension (boundary off): counts must still agree."""
    from sparseSpACE.StandardCombi import StandardCombi
    from sparseSpACE.GridOperation import Integration
    from sparseSpACE.Grid import TrapezoidalGrid
    from sparseSpACE.Function import FunctionLinear
    d, lmin, lmax, a, b = case["d"], case["lmin"], case["lmax"], case["a"], case["b"]
    b2 = list(b)
    b2[-1] = float(np.nextafter(b[-1], a[-1]))
    st = {}
    with ctx.guard("B.total", S_PTS, "box-ulp-raises"):
        with quiet():
            grid = TrapezoidalGrid(np.array(a), np.array(b), boundary=False)
            op = Integration(FunctionLinear([1.0] * d), grid=grid, dim=d)
            combi = StandardCombi(np.array(a), np.array(b2), operation=op, print_output=False)
            combi.set_combi_parameters(lmin, lmax)
            rows = []
            for cg in combi.scheme:
                lv = [int(x) for x in cg.levelvector]
                pts = combi.get_points_component_grid(lv)
                pts2, w2 = combi.get_points_and_weights_component_grid(lv)
                rows.append((lv, int(combi.get_num_points_component_grid(lv, False)), len(pts), len(pts2), len(w2)))
            st["rows"] = rows
    if "rows" in st:
        bad = [r for r in st["rows"] if not (r[1] == r[2] == r[3] == r[4])]
        ctx.check("B.counts", not bad, S_NUM, "combi-box-one-ulp-below-grid-b",
                  "(level, announced, points, points, weights): %s" % bad[:3])


# ------------------------------------------------------------------------------------------- enumeration
def build_case(d, lmin, lmax, box, boundary, kind="standard"):
    a, b = BOXES[box]
    return {"d": d, "lmin": lmin, "lmax": lmax, "a": a[:d], "b": b[:d], "boundary": boundary, "box": box, "kind": kind}


def do_case(ctx, case):
    ctx.case(case, nontrivial=case["d"] >= 2 and case["lmin"] < case["lmax"])
    run_case(ctx, case)


def run(ctx):
    quick = ctx.quick()
    ctx.exhaustive = True
    k = 0
    for d in (1, 2, 3):
        top = 4 if d < 3 else 3
        for lmax in range(1, top + 1):
            for lmin in range(1, lmax + 1):
                for boundary in (True, False):
                    k += 1
                    if quick:
                        boxes = range(len(BOXES)) if (lmin, lmax) in ((1, 2), (2, 3)) else [k % len(BOXES)]
                    else:
                        boxes = range(len(BOXES))
                    for box in boxes:
                        if ctx.out_of_time(0.95):
                            ctx.exhaustive = False
                            return
                        do_case(ctx, build_case(d, lmin, lmax, box, boundary))
    for d, lmin, lmax, box in ((1, 1, 2, 0), (2, 1, 3, 2), (3, 1, 2, 1)):
        do_case(ctx, build_case(d, lmin, lmax, box, False, kind="box-ulp"))
    # boundary flag handed over as a numpy boolean
    for d, lmin, lmax, box, bnd in ((1, 1, 3, 1, False), (2, 1, 3, 0, False), (2, 1, 2, 3, True), (3, 1, 2, 2, False)):
        do_case(ctx, dict(build_case(d, lmin, lmax, box, bnd), np_flag=True))
    # history: the same StandardCombi instance served other (lmin, lmax) before (a diagonal of the scheme recurs with another minimum level)
    for d, lmin, lmax, pre, box, bnd in ((2, 2, 4, [(1, 3)], 0, True), (2, 1, 4, [(2, 4)], 1, False), (3, 2, 3, [(1, 2)], 2, True), (2, 1, 3, [(2, 4), (1, 2)], 3, True), (1, 2, 4, [(1, 3)], 0, True)):
        if ctx.out_of_time(0.97):
            ctx.exhaustive = False
            break
        do_case(ctx, dict(build_case(d, lmin, lmax, box, bnd), pre_levels=pre))
    # history: other instances of the same (dim, lmin, lmax) were used and their scheme objects overwritten in place before this instance
    hist = [(1, 1, 3), (2, 1, 2), (2, 1, 3), (2, 2, 4), (3, 1, 2), (3, 1, 3), (3, 2, 3)]
    if not quick:
        hist = [(d, lmin, lmax) for d in (1, 2, 3) for lmax in range(1, (4 if d < 3 else 3) + 1) for lmin in range(1, lmax + 1)]
    for n, (d, lmin, lmax) in enumerate(hist):
        if ctx.out_of_time(0.98):
            ctx.exhaustive = False
            return
        do_case(ctx, build_case(d, lmin, lmax, n % len(BOXES), bool((n + 1) % 2), kind="after-coefficient-update"))


def replay(ctx, case):
    run_case(ctx, case)
