"""C13 bounded stand-in: the adaptive driver honours its stopping rules and reports truthful numbers.

The real performSpatiallyAdaptiv of the three spatially adaptive strategies is run with an Integration operation that has
a reference solution; evaluate_operation and refine of the instance are wrapped (inside this process) to record the call
sequence, the combined value after each evaluation and the number of distinct points at which the integrand (a counting
Function subclass of the harness) has really been evaluated.
"""
import numpy as np

from bounded.api import close, quiet

BUDGET = {"quick": 60.0, "thorough": 840.0}
BOUND = ("strategies: dimension-wise (GlobalTrapezoidalGrid boundary on/off, versions {6,2,3,7,8}, rebalancing on/off), extend-split "
         "(TrapezoidalGrid with boundary, versions {0,1,2}, refinements-before-extend {1,2,3}, automatic_extend_split, split_single_dim), "
         "cell (TrapezoidalGrid with boundary, lmin=lmax=2); d in {2,3}; Integration with a reference solution that is (a) an accurate "
         "quadrature of the integrand, (b) an arbitrary non-zero vector, (c) the zero vector, (d) the exact analytic value for dyadic constant/coordinate integrands (error exactly 0); norms {1,2,inf}; scalar and 2-3 component "
         "integrands (Genz family, random smooth, multilinear); tol in {-1,0,1e-2,1e2}; max_evaluations in {0, n0-1, n0, n_j-1, n_k-1, None}, "
         "min_evaluations in {1, n0, n0+1, n_j, n_k} where n_0..n_k (k<=8, d=3: k<=5, polynomial integrands: k<=3, d=3: k<=2; histories cut when n_j>2500) are the point counts of the unlimited run; "
         "seeded pseudo-random combinations")
BOUND += "; fault / magnitude additions: two fixed histories (dimension-wise, extend-split): stop, three refused performSpatiallyAdaptiv requests, continuation"
BOUND += "; round-10 additions: one fixed history continuing a tolerance-stopped run with tol 0 and tol -1 and a point limit"
RULE = BOUND + "; a case is one (configuration, integrand, reference, tol, min, max); non-trivial = at least one refinement happened or a limit was met at the first evaluation"
CLAUSES = {
    "B.stop.first": "with the returned arrays (err_j, n_j): the condition (err_j<=tol and n_j>=min) or (max given and n_j>max) is false for every "
                    "evaluation before the last and true at the last one",
    "B.stop.norefine": "observed call sequence is evaluate (refine evaluate)*: every refinement is followed by an evaluation, nothing is refined after the stopping evaluation",
    "B.hist.lengths": "error, surplus-error and point-count arrays all have exactly one entry per observed evaluation",
    "B.hist.monotone": "returned point counts never decrease",
    "B.hist.nonneg": "returned errors and surplus errors are >= 0; after every evaluation all refinement-object errors and benefits are >= 0",
    "B.err.truthful": "for every evaluation j: err_j == deviation of the combined value after evaluation j from the reference, relative (absolute for a zero "
                      "reference), in the chosen norm (rel 1e-9; accepted forms: p-norm or p-mean of the component-wise relative deviation, or ||diff||_p/||ref||_p); "
                      "the value after the last evaluation is the returned result",
    "B.err.convention": "vector valued integrand, norm 1 or 2: the error for the zero reference uses the same form (p-norm or p-mean) of the deviation vector as the "
                        "error of the same configuration for a non-zero reference (companion run with reference (1,..,1), first evaluation)",
    "B.count.truthful": "for every evaluation j: n_j == number of distinct points at which the integrand has been evaluated so far; same for get_total_num_points() after the run",
}

S_LOOP = "sparseSpACE.spatiallyAdaptiveBase:SpatiallyAdaptivBase.continue_adaptive_refinement"
S_ERR = "sparseSpACE.GridOperation:Integration.get_global_error_estimate"
S_CNT = "sparseSpACE.StandardCombi:StandardCombi.get_total_num_points"
S_BEN = "sparseSpACE.RefinementContainer:RefinementContainer.set_benefit"


class _StopScout(Exception):
    pass


def _dc():
    from bounded import _drivers_common as dc
    return dc


def lmins(cfg):
    return (2, 2) if cfg["strategy"] == "cell" else (1, cfg.get("lmax", 2))


def scout(case, max_refinements):
    dc = _dc()
    s, eo, f = dc.build(case["cfg"], case["comps"], case["ref"])
    log = dc.instrument(s, f)
    inner = s.refine

    def limited():
        if log["seq"].count("R") >= max_refinements or log["evals"][-1]["npts"] > 2500:
            raise _StopScout()
        return inner()

    s.refine = limited
    lmin, lmax = lmins(case["cfg"])
    try:
        dc.run_adaptive(s, eo, lmin, lmax, -1.0, None)
    except _StopScout:
        pass
    return [e["npts"] for e in log["evals"]], [e["ret"][0] for e in log["evals"]]


def max_ref(case):
    """Refinement steps of the scouting run.  Polynomial integrands have all-zero error indicators, the library then refines
    everything in every step (exponential growth), so those histories are kept short."""
    if all(c[0] in ("const", "mono", "lincomb") for c in case["comps"]):
        return 3 if len(case["cfg"]["a"]) == 2 else 2
    return 8 if len(case["cfg"]["a"]) == 2 else 5


def deviation_candidates(dc, ref, res, p):
    ref = np.asarray(ref, float)
    res = np.asarray(res, float)
    if np.all(ref == 0.0):
        return dc.pnorm_candidates(res, p)
    cands = dc.pnorm_candidates((ref - res) / ref, p)
    pp = np.inf if p == "inf" else p
    cands.append(float(np.linalg.norm(ref - res, pp) / np.linalg.norm(ref, pp)))
    return cands


def check_run(ctx, case):
    dc = _dc()
    cfg = case["cfg"]
    st = cfg["strategy"]
    s, eo, f = dc.build(cfg, case["comps"], case["ref"])
    lmin, lmax = lmins(cfg)
    tol, mx, mn = case["tol"], case["max"], case["min"]
    if case.get("reuse"):
        # history: an earlier, larger run on the same operation / integrand objects; the run under test is a fresh strategy instance on them.
        # Its reported point counts must count the points of THIS run (the integrand's bookkeeping of the oracle is reset, the library must
        # reset its own).
        with ctx.guard("B.stop.first", S_LOOP, cfg["strategy"] + "-raises"):
            dc.run_adaptive(s, eo, lmin, lmax, -1.0, case["reuse"], 1)
        s, eo, f = dc.build(cfg, case["comps"], case["ref"], reuse=(s.operation, f))
        f.seen = set()
    if case.get("nocache"):
        # the integrand's value cache switched off by its public switch before the run: the reported point counts are still the numbers of distinct points
        # evaluated (missed seed C13_b: the batch path stopped recording points when caching is off).  Only tolerance-stopped anchor cases use this option, so a
        # tree that reports wrong counts cannot keep the harness in the loop.
        f.deactivate_caching()
    log = dc.instrument(s, f)
    r = None
    with ctx.guard("B.stop.first", S_LOOP, st + "-raises"):
        r = dc.run_adaptive(s, eo, lmin, lmax, tol, mx, mn)
    if r is None:
        return
    res, errs, npts, serrs = r[3], r[5], r[6], r[7]
    E = log["seq"].count("E")
    wc = "%s-tol%s" % (st, {-1.0: "neg", 0.0: "zero"}.get(float(tol), "pos"))
    # call sequence
    ctx.check("B.stop.norefine", "".join(log["seq"]) == "E" + "RE" * (E - 1) and E >= 1, S_LOOP, wc, "call sequence %s" % "".join(log["seq"]))
    ctx.check("B.hist.lengths", len(errs) == len(npts) == len(serrs) == E, S_LOOP, wc,
              "lengths: errors %d, points %d, surplus errors %d, evaluations %d" % (len(errs), len(npts), len(serrs), E))

    def cond(j):
        return (errs[j] <= tol and npts[j] >= mn) or (mx is not None and npts[j] > mx)

    n = min(len(errs), len(npts))
    early = [j for j in range(n - 1) if cond(j)]
    ctx.check("B.stop.first", n >= 1 and not early and cond(n - 1), S_LOOP, wc + ("-late" if early else "-early"),
              "tol=%s min=%s max=%s errors=%s points=%s: condition already true at %s, at the last evaluation: %s"
              % (tol, mn, mx, [float(e) for e in errs], list(npts), early, cond(n - 1) if n else None))
    ctx.check("B.hist.monotone", all(npts[j] <= npts[j + 1] for j in range(len(npts) - 1)), S_CNT, st, "point counts %s" % list(npts))
    ok_nonneg = all(e >= 0 for e in errs) and all(e >= 0 for e in serrs)
    ctx.check("B.hist.nonneg", ok_nonneg, S_ERR, st + "-arrays", "errors %s surplus errors %s" % (list(errs), list(serrs)))
    bad = []
    for j, ev in enumerate(log["evals"]):
        for kind in ("benefits", "errors"):
            for x in ev[kind]:
                if x is not None and not np.all(np.asarray(x, float) >= 0):
                    bad.append((j, kind, x))
    ctx.check("B.hist.nonneg", not bad, S_BEN, st + "-objects", "negative object error/benefit: %s" % bad[:3])
    # truthful error
    p = cfg.get("norm", "inf")
    bad = []
    for j in range(min(E, len(errs))):
        cands = deviation_candidates(dc, case["ref"], log["evals"][j]["result"], p)
        if not any(close(errs[j], c, rel=1e-9, abs_=1e-13) for c in cands):
            bad.append((j, float(errs[j]), cands))
    last_ok = E >= 1 and close(res, log["evals"][-1]["result"], rel=0, abs_=0)
    ctx.check("B.err.truthful", not bad and last_ok, S_ERR, "%s-norm%s-%s" % (st, p, case["refkind"]),
              "reported error vs own deviation (index, reported, accepted): %s; returned result equals value after last evaluation: %s" % (bad[:3], last_ok))
    # one norm convention for zero and non-zero references (only where the accepted forms differ: vector valued, finite p)
    if case["refkind"] == "zero" and len(case["comps"]) > 1 and p != "inf" and E >= 1 and not bad:
        with ctx.guard("B.err.convention", S_ERR, st + "-raises"):
            s2, eo2, _ = dc.build(cfg, case["comps"], [1.0] * len(case["comps"]))
            r2 = dc.run_adaptive(s2, eo2, lmin, lmax, -1.0, 0, 1)      # stops after the first evaluation
            names = ["plain", "mean"]
            c_non = dc.pnorm_candidates((1.0 - r2[3]) / 1.0, p)
            forms_non = {n for n, c in zip(names, c_non) if close(r2[5][0], c, rel=1e-9, abs_=1e-13)}
            c_zero = dc.pnorm_candidates(log["evals"][0]["result"], p)
            forms_zero = {n for n, c in zip(names, c_zero) if close(errs[0], c, rel=1e-9, abs_=1e-13)}
            distinguishable = not close(c_zero[0], c_zero[1], rel=1e-6, abs_=1e-12) and not close(c_non[0], c_non[1], rel=1e-6, abs_=1e-12)
            if distinguishable and forms_non and forms_zero:
                ctx.check("B.err.convention", bool(forms_non & forms_zero), S_ERR, "%s-norm%s-zero-vs-nonzero" % (st, p),
                          "error for a non-zero reference is the %s of the deviation, for the zero reference the %s" % (sorted(forms_non), sorted(forms_zero)))
    # truthful point count
    seen = [ev["seen"] for ev in log["evals"]]
    total = None
    with ctx.guard("B.count.truthful", S_CNT, st + "-raises"):
        total = s.get_total_num_points()
    ctx.check("B.count.truthful", list(npts) == seen[:len(npts)] and total == len(f.seen), S_CNT, st,
              "reported point counts %s, distinct integrand evaluation points %s; final %s vs %s" % (list(npts), seen, total, len(f.seen)))
    if not n:
        return None
    by_tol = errs[n - 1] <= tol and npts[n - 1] >= mn
    by_max = mx is not None and npts[n - 1] > mx
    return ("tol" if by_tol else "") + ("max" if by_max else ""), E > 1


def check_refused(ctx, case):
    """History: a run stopped by the point limit, then a request the driver REFUSES (invalid arguments, AssertionError), then the run is continued with a
    larger limit.  The arrays returned by the continuation describe the whole run: one entry per evaluation, the entries of the first stop as their prefix
    (missed seed C13_9: the refused request had already cleared the history arrays)."""
    dc = _dc()
    cfg = case["cfg"]
    st = cfg["strategy"]
    s, eo, f = dc.build(cfg, case["comps"], case["ref"])
    lmin, lmax = lmins(cfg)
    log = dc.instrument(s, f)
    r1 = None
    with ctx.guard("B.hist.lengths", S_LOOP, st + "-raises"):
        r1 = dc.run_adaptive(s, eo, lmin, lmax, case["tol"], case["first"], 1)
    if r1 is None:
        return
    refused = 0
    d = len(cfg["a"])
    for bad_args in (([1] * d, [2] * d), (None, 2), (1, None)):
        try:
            with quiet():
                s.performSpatiallyAdaptiv(bad_args[0], bad_args[1], eo, case["tol"], max_evaluations=case["first"], print_output=False)
        except AssertionError:
            refused += 1
        except Exception:  # noqa  (another kind of refusal of nonsense arguments: equally a refusal)
            refused += 1
        else:
            return      # the request was accepted as a new run: nothing is promised about the old one
    r2 = None
    with ctx.guard("B.hist.lengths", S_LOOP, st + "-continue-after-refused-request-raises"):
        r2 = dc.continue_adaptive(s, case["tol"], case["max"], 1)
    if r2 is None:
        return
    E = log["seq"].count("E")
    errs, npts, serrs = r2[5], r2[6], r2[7]
    ctx.check("B.hist.lengths", len(errs) == len(npts) == len(serrs) == E and list(npts[:len(r1[6])]) == list(r1[6]) and list(errs[:len(r1[5])]) == list(r1[5]),
              S_LOOP, st + "-continued-after-refused-request",
              "after %d refused requests and a continuation: %d evaluations were made in this run, the arrays have %d / %d / %d entries; points at the first stop %s, now %s"
              % (refused, E, len(errs), len(npts), len(serrs), list(r1[6]), list(npts)))


def check_continue_limits(ctx, case):
    """The continuation entry point with limits of its own: a run stopped by a positive tolerance, then continue_adaptive_refinement with tol = 0 (and tol < 0) and a
    point limit -- the continuation obeys ITS arguments: it stops at the first of its evaluations that meets a rule stated with them (missed seed C13_a: `tol or
    previous tolerance`)."""
    dc = _dc()
    cfg = case["cfg"]
    st = cfg["strategy"]
    lmin, lmax = lmins(cfg)
    for tol2 in (0.0, -1.0):
        s, eo, f = dc.build(cfg, case["comps"], case["ref"])
        r1 = None
        with ctx.guard("B.stop.first", S_LOOP, st + "-raises"):
            r1 = dc.run_adaptive(s, eo, lmin, lmax, case["tol"], case["first"], 1)
        if r1 is None:
            return
        n1 = len(r1[6])
        r2 = None
        with ctx.guard("B.stop.first", S_LOOP, st + "-continue-raises"):
            r2 = dc.continue_adaptive(s, tol2, case["max"], 1)
        if r2 is None:
            return
        errs, npts = list(r2[5])[n1:], list(r2[6])[n1:]
        cond = lambda j: (errs[j] <= tol2 and npts[j] >= 1) or npts[j] > case["max"]  # noqa
        early = [j for j in range(len(errs) - 1) if cond(j)]
        ctx.check("B.stop.first", len(errs) >= 1 and not early and cond(len(errs) - 1), S_LOOP, st + "-continued-with-own-limits",
                  "continuation with tol=%s max=%s after a run with tol=%s: errors %s points %s of the continuation; rule already true at %s, at its last evaluation: %s"
                  % (tol2, case["max"], case["tol"], [float(e) for e in errs], npts, early, cond(len(errs) - 1) if errs else None))


# ---------------------------------------------------------------------------------------------------------
# generation
# ---------------------------------------------------------------------------------------------------------

def gen_configs(ctx, n):
    rng = ctx.rng
    out = []
    for i in range(n):
        st = ["dimwise", "extend", "cell"][i % 3]
        d = 3 if (i // 3) % 4 == 3 else 2
        a, b = ([0.0] * d, [1.0] * d) if rng.random() < 0.7 else ([-0.5] * d, [1.5] * d)
        norm = [1, 2, "inf"][(i // 3 + i) % 3]
        cfg = {"strategy": st, "a": a, "b": b, "norm": norm}
        if st == "dimwise":
            cfg["grid"] = {"type": "GlobalTrapezoidal", "boundary": rng.random() < 0.6}
            cfg["opts"] = {"version": [6, 2, 3, 7, 8][(i // 3) % 5], "rebalancing": rng.random() < 0.7}
            cfg["lmax"] = 2 if d == 3 or rng.random() < 0.6 else 3
        elif st == "extend":
            cfg["grid"] = {"type": "Trapezoidal", "boundary": True}
            cfg["opts"] = {"version": [0, 1, 2, 0][(i // 3) % 4], "number_of_refinements_before_extend": [1, 2, 3][(i // 3) % 3]}
            mode = (i // 3) % 5
            if mode == 1:
                cfg["opts"]["automatic_extend_split"] = True
            elif mode == 3 and cfg["opts"]["version"] == 0:
                cfg["opts"]["split_single_dim"] = True
            cfg["lmax"] = 2 if d == 3 or rng.random() < 0.6 else 3
        else:
            cfg["grid"] = {"type": "Trapezoidal", "boundary": True}
            cfg["opts"] = {}
        out.append(cfg)
    return out


def gen_integrand(ctx, d):
    dc = _dc()
    rng = ctx.rng
    u = rng.random()
    if u < 0.12:  # dyadic constants / coordinate functions: with the analytic reference the error is exactly zero (tol=0 can stop)
        return [rng.choice([["const", 0.5], ["mono", [rng.randrange(d)]], ["mono", [0, d - 1]]]) for _ in range(rng.choice([1, 2]))]
    if u < 0.24:  # multilinear
        return [["lincomb", [round(rng.uniform(-2, 2), 3) for _ in range(d + 1)], [["const", 1.0]] + [["mono", [j]] for j in range(d)]]]
    n = 1 if u < 0.6 else rng.choice([2, 3])
    return [dc.random_genz(rng, d) for _ in range(n)]


def gen_reference(ctx, comps, a, b):
    dc = _dc()
    rng = ctx.rng
    if all(c[0] in ("const", "mono") for c in comps) and rng.random() < 0.7:
        return "exact", [dc.comp_integral(c, np.array(a, float), np.array(b, float)) for c in comps]
    true = dc.gauss_reference(comps, np.array(a), np.array(b), n=16)
    kind = rng.choice(["quad", "quad", "quad", "offset", "zero", "tiny"])
    if kind == "tiny":
        # a reference that is tiny but NOT zero: the error is still the relative deviation (seed C13_4 replaced the exact zero test by np.isclose)
        return "tiny", [rng.choice([-1.0, 1.0]) * 10.0 ** (-rng.uniform(9.0, 12.0)) for _ in comps]
    if kind == "quad" and np.all(np.abs(true) > 1e-8):
        return "quad", [float(x) for x in true]
    if kind == "zero":
        return "zero", [0.0] * len(comps)
    ref = [float(x * rng.uniform(1.2, 2.0) + rng.choice([-1, 1]) * rng.uniform(0.2, 1.0)) for x in true]
    ref = [x if abs(x) > 0.05 else 0.3 for x in ref]
    return "offset", ref


def gen_limits(ctx, npts, errs, refkind=None):
    rng = ctx.rng
    k = len(npts) - 1
    j = rng.randrange(0, k + 1)
    tol = rng.choice([-1.0, 0.0, 1e-2, 1e2])
    if refkind == "exact" and rng.random() < 0.5:
        tol = 0.0
    mx = rng.choice([0, npts[0] - 1, npts[0], npts[j] - 1, npts[k] - 1, npts[k] - 1])
    mn = rng.choice([1, 1, npts[0], npts[0] + 1, npts[j], npts[k]])
    if tol == 1e2 and max(errs) <= 1e2 and mn <= npts[k] and rng.random() < 0.5:
        mx = None  # stop decided by tolerance and minimum alone
    return tol, mx, mn


def anchor_cases():
    """Fixed cases: vector valued integrand, zero reference, norms 1 and 2 (the two error branches must share one norm convention)."""
    out = []
    for st, norm in (("dimwise", 2), ("extend", 1), ("cell", 2)):
        cfg = {"strategy": st, "a": [0.0, 0.0], "b": [1.0, 1.0], "norm": norm, "opts": {}}
        cfg["grid"] = {"type": "GlobalTrapezoidal" if st == "dimwise" else "Trapezoidal", "boundary": True}
        if st == "extend":
            cfg["opts"] = {"version": 0, "number_of_refinements_before_extend": 2}
        out.append({"kind": "run", "cfg": cfg, "comps": [["corner", [1.0, 3.0]], ["gauss", [6.0, 9.0], [0.3, 0.6]], ["osc", [2.0, 1.0], 0.2]],
                    "ref": [0.0, 0.0, 0.0], "refkind": "zero", "tol": 1e2, "max": None, "min": 60})
    # the reference is given after construction through the operation's setter (UQ workflow; found by missed seed C13_7: a normalisation cached in the
    # constructor); references far from 1 in magnitude, scalar and vector valued, both a tolerance stop and a point limit
    for norm, comps, ref, tol, mx in ((2, [["corner", [1.0, 3.0]], ["gauss", [6.0, 9.0], [0.3, 0.6]]], [3.7, 0.02], 1e-2, 120), ("inf", [["osc", [2.0, 1.0], 0.2]], [0.004], 1e2, 150)):
        cfg = {"strategy": "dimwise", "a": [0.0, 0.0], "b": [1.0, 1.0], "norm": norm, "opts": {}, "grid": {"type": "GlobalTrapezoidal", "boundary": True}, "late_reference": True}
        out.append({"kind": "run", "cfg": cfg, "comps": comps, "ref": ref, "refkind": "offset", "tol": tol, "max": mx, "min": 30})
    for st in ("dimwise", "extend"):
        cfgn = {"strategy": st, "a": [0.0, 0.0], "b": [1.0, 1.0], "norm": 2, "opts": {} if st == "dimwise" else {"version": 0, "number_of_refinements_before_extend": 2},
                "grid": {"type": "GlobalTrapezoidal" if st == "dimwise" else "Trapezoidal", "boundary": True}}
        out.append({"kind": "run", "cfg": cfgn, "comps": [["corner", [1.0, 3.0]], ["gauss", [6.0, 9.0], [0.3, 0.6]]], "ref": [0.0, 0.0], "refkind": "zero", "tol": 1e2, "max": None, "min": 0,
                    "nocache": True})
    for st in ("dimwise", "extend"):
        cfg = {"strategy": st, "a": [0.0, 0.0], "b": [1.0, 1.0], "norm": "inf", "opts": {} if st == "dimwise" else {"version": 0, "number_of_refinements_before_extend": 2},
               "grid": {"type": "GlobalTrapezoidal" if st == "dimwise" else "Trapezoidal", "boundary": True}}
        out.append({"kind": "refused", "cfg": cfg, "comps": [["corner", [1.0, 3.0]]], "ref": [0.1], "refkind": "offset", "tol": -1.0, "first": 40, "max": 90, "min": 1})
        if st == "dimwise":
            out.append({"kind": "continue_limits", "cfg": cfg, "comps": [["corner", [1.0, 3.0]]], "ref": [0.1], "refkind": "offset", "tol": 0.6, "first": 200, "max": 90, "min": 1})
    return out


def run(ctx):
    ctx.exhaustive = False
    for case in anchor_cases():
        ctx.case(case, nontrivial=True)
        {"refused": check_refused, "continue_limits": check_continue_limits}.get(case["kind"], check_run)(ctx, case)
    quick = ctx.quick()
    per_cfg = 8 if quick else 12
    stats = {}
    rounds = 0
    while True:
        for cfg in gen_configs(ctx, 45 if quick else 90):
            if ctx.out_of_time(0.88):
                break
            d = len(cfg["a"])
            comps = gen_integrand(ctx, d)
            refkind, ref = gen_reference(ctx, comps, cfg["a"], cfg["b"])
            base = {"cfg": cfg, "comps": comps, "ref": ref, "refkind": refkind}
            ctx.case(dict(base, kind="scout"), nontrivial=False)
            npts = None
            with ctx.guard("B.stop.first", S_LOOP, cfg["strategy"] + "-raises"):
                npts, errs = scout(base, max_ref(base))
            if not npts:
                continue
            seen_limits = set()
            for _ in range(per_cfg):
                tol, mx, mn = gen_limits(ctx, npts, errs, refkind)
                if (tol, mx, mn) in seen_limits:
                    continue
                seen_limits.add((tol, mx, mn))
                case = dict(base, kind="run", tol=tol, max=mx, min=mn)
                if len(seen_limits) == 1 and len(npts) >= 2:
                    case["reuse"] = int(npts[-1])     # first limit set of every configuration: preceded by a larger run on the same objects
                ctx.case(case, nontrivial=True)
                why = check_run(ctx, case)
                stats[why] = stats.get(why, 0) + 1
        rounds += 1
        if quick or ctx.out_of_time(0.8) or rounds >= 10:
            break
    ctx.note("runs by (stopping cause, number of refinements>0): %s" % sorted((str(k), v) for k, v in stats.items()))


def replay(ctx, case):
    if case.get("kind") == "scout":
        with ctx.guard("B.stop.first", S_LOOP, case["cfg"]["strategy"] + "-raises"):
            scout(case, max_ref(case))
    elif case.get("kind") == "refused":
        check_refused(ctx, case)
    elif case.get("kind") == "continue_limits":
        check_continue_limits(ctx, case)
    else:
        check_run(ctx, case)
