"""C07 bounded stand-in: extend-split areas tile the domain and each carries a valid local combination.

Everything is evaluated on the real SpatiallyAdaptiveExtendScheme / RefinementObjectExtendSplit / RefinementContainer.
The oracle is integer/rational bookkeeping written here: dominating sums of coefficients over hierarchical levels,
exact rational box volumes, exact float comparisons of box faces, and the analytic function values.
"""
import itertools
import math
import random
from fractions import Fraction

from bounded.api import quiet

SITE_COARSEN = "sparseSpACE.spatiallyAdaptiveExtendSplit:SpatiallyAdaptiveExtendScheme.coarsen_grid"
SITE_REFINE = "sparseSpACE.RefinementObject:RefinementObjectExtendSplit.refine"
SITE_ASSIGN = "sparseSpACE.spatiallyAdaptiveExtendSplit:SpatiallyAdaptiveExtendScheme.get_points_in_areas_recursive"
SITE_CALL = "sparseSpACE.spatiallyAdaptiveExtendSplit:SpatiallyAdaptiveExtendScheme.interpolate_points"
SITE_STEP = "sparseSpACE.spatiallyAdaptiveBase:SpatiallyAdaptivBase.refine"

BOUND = ("piecewise-linear TrapezoidalGrid with boundary points, Integration operation, d in 2..4 (coarsen_grid version 0 indexes the second "
         "largest level, so d=1 is not a configuration of this strategy). (a) local combination: every (version in {0,1,2}, d<=4, "
         "lmin in {1,2,3}, lmin<=lmax<=lmin+4, coarsening 0..lmax) with the standard scheme of (lmin,lmax), exhaustively (thorough; quick: "
         "d<=3 plus d=4 with lmax-lmin<=2). (b) histories: d in {2,3}, start levels (lmin,lmax) in {(1,2),(1,3),(2,3),(1,1),(2,2)} (quick: "
         "d=3 only (1,2)), versions 0-2, number_of_refinements_before_extend in {0,1,2}, automatic_extend_split on/off, split_single_dim "
         "on/off (automatic_extend_split only with lmax>lmin at the start: its benefit estimate evaluates a parent one level below lmax, "
         "which does not exist for lmax==lmin), three domains, scalar or 2-vector generic integrand, <=6 refine steps driven by a seeded adversarial ErrorCalculator "
         "(arbitrary positive errors); seeded sample of that product (about 60 histories quick, several hundred thorough); 40-70 "
         "evaluation points per step (random interior points plus corners/face midpoints of leaves); every fourth history is followed by a "
         "second performSpatiallyAdaptiv on the same object (2 more steps), every fourth by a second scheme with other options on the same "
         "grid/operation/Function objects (3 steps)")
RULE = BOUND + ("; a case is one (version,d,lmin,lmax,coarsening) tuple or one history configuration with its seed; a local case is "
                "non-trivial when at least one component grid is computed, a history when at least one refinement step changed the leaves")
BUDGET = {"quick": 70.0, "thorough": 840.0}

CLAUSES = {
    "B.local.coeff_sum": "for the component grids that coarsen_grid reports as computed for an area (collision filter included), the "
                         "coefficients of the grids containing a grid point sum to 1 at every grid point of the area (evaluated per "
                         "hierarchical level: dominating sums over the downward closure of the computed coarsened levels are all 1)",
    "B.local.levels": "every coarsened level vector returned by coarsen_grid has entries >= 0 (i.e. >= lmin before the shift) and never "
                      "exceeds the uncoarsened level minus lmin",
    "B.hist.runs": "initialisation, refine() and evaluate_operation() of a valid configuration return normally",
    "B.hist.boxes": "every leaf is an axis-parallel box with start < end in every dimension lying inside the domain",
    "B.hist.tiling": "leaf interiors are pairwise disjoint and the exact (rational) leaf volumes sum to the domain volume",
    "B.hist.tree_leaves": "the leaves of the refinement tree used for point assignment are exactly the objects of the refinement container",
    "B.hist.assignment": "get_points_assignement_to_areas assigns every evaluation point of the domain to exactly one leaf, which contains it",
    "B.hist.coarsening_nonneg": "coarseningValue of every leaf is an integer >= 0",
    "B.hist.computed_sum": "the component grids actually evaluated for a leaf in evaluate_operation (recorded at Integration.evaluate_area) "
                           "have coefficient sums 1 at every grid point of the leaf",
    "B.hist.current_sum": "for every leaf the grids that coarsen_grid selects under the current scheme and coarsening value (what __call__ "
                          "combines) have coefficient sums 1 at every grid point; for version 0 (documented as adding points only where "
                          "refined) they are the same coarsened grids with the same net coefficients as the ones evaluated for that leaf",
    "B.hist.idempotent": "asking again changes nothing: __call__ on the same points and get_points_assignement_to_areas return the same values / "
                         "the same leaves a second time, and the coarsen_grid selection of a leaf is the same when asked twice",
    "B.hist.fresh_state": "no contamination between runs and objects: performSpatiallyAdaptiv called again on the same scheme object (other start "
                          "levels), and a second, differently configured scheme built on the SAME grid / operation / Function objects, start "
                          "from the fresh initial state (2^d leaves, coarsening 0, given lmax) and satisfy every history clause in their own "
                          "steps (reported with witness classes ending in /second-run and /shared-operation)",
    "B.local.two_areas": "two area objects with different coarsening values served alternately by one scheme object keep their own "
                         "selections (each valid, the first unchanged when asked again after the second)",
    "B.hist.interpolation": "the combined interpolant __call__(p) equals f(p) (1e-9 abs+rel) at every grid point p of the leaf that p is assigned to",
}


# ----------------------------------------------------------------------------------------------------------------
# oracle helpers (no repo code)
def dominating_defects(computed, d):
    """computed: list of (coarsened level tuple, coefficient).  Returns the hierarchical levels k in the downward closure
    whose dominating coefficient sum differs from 1.  A grid point of hierarchical level k lies exactly in the grids with
    level >= k (nested dyadic grids with boundary), so this is the point-wise coefficient sum."""
    ks = set()
    for lv, _ in computed:
        if min(lv) < 0:
            continue
        ks.update(itertools.product(*[range(x + 1) for x in lv]))
    bad = []
    for k in sorted(ks):
        s = sum(c for lv, c in computed if all(lv[i] >= k[i] for i in range(d)))
        if abs(s - 1) > 1e-12:
            bad.append((k, s))
    return bad


def net(computed):
    """net coefficient per coarsened level (versions 1/2 map several component grids to the same coarsened grid)"""
    out = {}
    for lv, c in computed:
        out[lv] = out.get(lv, 0) + c
    return {k: v for k, v in out.items() if abs(v) > 1e-12}


def vclass(version, lmin):
    # versions 1/2 hard-code lmin == 1 in their diagonal arithmetic: keep those witnesses in a class of their own
    if version in (1, 2) and lmin != 1:
        return "v%d-lmin-gt1" % version
    return "v%d" % version


def make_function(kind, d, seed, outlen):
    from sparseSpACE.Function import Function
    r = random.Random(seed)
    w = [r.uniform(0.5, 3.0) * r.choice((-1, 1)) for _ in range(d)]
    ph = [r.uniform(0, 6.0) for _ in range(outlen)]
    q = [r.uniform(-1, 1) for _ in range(d)]

    class Generic(Function):
        def output_length(self):
            return outlen

        def eval(self, x):
            s = sum(w[i] * x[i] for i in range(d))
            t = sum(q[i] * x[i] * x[i] for i in range(d))
            return [math.sin(s + ph[j]) + 0.3 * t * (j + 1) + 1.5 for j in range(outlen)]

    return Generic()


def f_exact(f, p):
    return [float(v) for v in f.eval(p)]


DOMAINS = {"unit": (0.0, 1.0), "test": (-3.0, 6.0), "odd": (0.1, 0.7)}


def domain_vectors(name, d):
    import numpy as np
    lo, hi = DOMAINS[name]
    if name == "odd":  # anisotropic, non-dyadic
        a = np.array([lo - 0.37 * i for i in range(d)])
        b = np.array([hi + 1.3 * i for i in range(d)])
    else:
        a, b = lo * np.ones(d), hi * np.ones(d)
    return a, b


# ----------------------------------------------------------------------------------------------------------------
# (a) local combination through the real coarsen_grid on real area objects
def build_scheme_object(d, lmin, lmax, version):
    import numpy as np
    from sparseSpACE.spatiallyAdaptiveExtendSplit import SpatiallyAdaptiveExtendScheme
    from sparseSpACE.Grid import TrapezoidalGrid
    from sparseSpACE.GridOperation import Integration
    from sparseSpACE.combiScheme import CombiScheme
    a, b = np.zeros(d), np.ones(d)
    grid = TrapezoidalGrid(a, b, boundary=True)
    op = Integration(make_function("g", d, 1, 1), grid=grid, dim=d)
    sa = SpatiallyAdaptiveExtendScheme(a, b, operation=op, version=version)
    # the state init_adaptive_combi establishes (lmin/lmax equal in all dimensions, standard scheme)
    sa.lmin = [lmin for _ in range(d)]
    sa.lmax = [lmax for _ in range(d)]
    sa.combischeme = CombiScheme(d)
    with quiet():
        sa.scheme = sa.combischeme.getCombiScheme(lmin, lmax, do_print=False)
    return sa, grid


def computed_for_area(ctx, sa, area, d, lmin, clause, wclass):
    """Run the real coarsen_grid over the scheme in scheme order (exactly what compute_solutions / interpolate_points do)."""
    computed, all_levels = [], []
    ok_levels = True
    for cg in sa.scheme:
        lv, do_compute = sa.coarsen_grid(cg.levelvector, area)
        lv = tuple(int(x) for x in lv)
        all_levels.append(lv)
        if any(x < 0 for x in lv) or any(lv[i] > int(cg.levelvector[i]) - lmin for i in range(d)):
            ok_levels = False
        if do_compute:
            computed.append((lv, cg.coefficient))
    ctx.check("B.local.levels", ok_levels, SITE_COARSEN, wclass, "coarsened levels %s (lmin=%d)" % (all_levels[:6], lmin))
    return computed


def local_case(ctx, case):
    import numpy as np
    from sparseSpACE.RefinementObject import RefinementObjectExtendSplit
    version, d, lmin, lmax, c = case["version"], case["d"], case["lmin"], case["lmax"], case["c"]
    wclass = vclass(version, lmin)
    sa, grid = build_scheme_object(d, lmin, lmax, version)
    # a proper sub-box of the domain as the area (coarsen_grid must not depend on it)
    start = np.zeros(d)
    end = np.array([0.5 if i % 2 == 0 else 1.0 for i in range(d)])
    area = RefinementObjectExtendSplit(start, end, grid, coarseningValue=c)
    computed = None
    with ctx.guard("B.local.levels", SITE_COARSEN, wclass + "-raises"):
        computed = computed_for_area(ctx, sa, area, d, lmin, "B.local.coeff_sum", wclass)
    if computed is None:
        return False
    bad = dominating_defects(computed, d)
    ctx.check("B.local.coeff_sum", not bad, SITE_COARSEN, wclass,
              "version %d d=%d lmin=%d lmax=%d coarsening=%d: %d grids computed; coefficient sum at hierarchical level %s is %s"
              % (version, d, lmin, lmax, c, len(computed), bad[0][0] if bad else None, bad[0][1] if bad else None))
    # second pass in the same order (what a later __call__ sees): the collision dictionary must reproduce the same selection
    again = [(tuple(int(x) for x in sa.coarsen_grid(cg.levelvector, area)[0]), cg.coefficient) for cg in sa.scheme
             if sa.coarsen_grid(cg.levelvector, area)[1]]
    ctx.check("B.local.coeff_sum", sorted(again) == sorted(computed), SITE_COARSEN, wclass + "-second-pass",
              "second pass over the scheme selects different grids: %s vs %s" % (sorted(again)[:4], sorted(computed)[:4]))
    # a second area with another coarsening value on the same scheme object, served in between
    c2 = c - 1 if c > 0 else min(1, lmax - lmin)
    if c2 != c and 0 <= c2 <= lmax - lmin and c <= lmax - lmin:
        area2 = RefinementObjectExtendSplit(end * 0.5, end, grid, coarseningValue=c2)
        sel2 = sel1 = None
        with ctx.guard("B.local.two_areas", SITE_COARSEN, wclass + "-raises"):
            sel2 = [(tuple(int(x) for x in sa.coarsen_grid(cg.levelvector, area2)[0]), cg.coefficient) for cg in sa.scheme
                    if sa.coarsen_grid(cg.levelvector, area2)[1]]
            sel1 = [(tuple(int(x) for x in sa.coarsen_grid(cg.levelvector, area)[0]), cg.coefficient) for cg in sa.scheme
                    if sa.coarsen_grid(cg.levelvector, area)[1]]
        if sel2 is not None and sel1 is not None:
            bad2 = dominating_defects(sel2, d)
            ctx.check("B.local.two_areas", not bad2 and len(sel2) > 0 and sorted(sel1) == sorted(computed), SITE_COARSEN, wclass + "/two-areas",
                      "second area (coarsening %d): %d grids, defects %s; first area (coarsening %d) afterwards selects %s, before %s"
                      % (c2, len(sel2), bad2[:2], c, sorted(sel1)[:4], sorted(computed)[:4]))
    return len(computed) > 0


def run_local(ctx):
    quick = ctx.quick()
    for version in (0, 1, 2):
        for d in (2, 3, 4):
            for lmin in (1, 2, 3):
                for n in range(0, 5):
                    if quick and d == 4 and n > 2:
                        continue
                    lmax = lmin + n
                    for c in range(0, lmax + 1):
                        case = {"kind": "local", "version": version, "d": d, "lmin": lmin, "lmax": lmax, "c": c}
                        # version 0 computes nothing for c > lmax-lmin (no grid points: vacuous); count those as trivial
                        ctx.case(case, nontrivial=not (version == 0 and c > lmax - lmin))
                        local_case(ctx, case)


# ----------------------------------------------------------------------------------------------------------------
# (b) whole histories
def leaf_boxes(leaves):
    return [(tuple(float(x) for x in ar.start), tuple(float(x) for x in ar.end)) for ar in leaves]


def check_tiling(ctx, sa, a, b, d, wclass):
    leaves = sa.refinement.get_objects()
    boxes = leaf_boxes(leaves)
    okbox = all(len(s) == d and len(e) == d and all(s[i] < e[i] and a[i] <= s[i] and e[i] <= b[i] for i in range(d)) for s, e in boxes)
    ctx.check("B.hist.boxes", okbox, SITE_REFINE, wclass, "degenerate or outside box among %s" % boxes[:4])
    vol = sum((math.prod(Fraction(e[i]) - Fraction(s[i]) for i in range(d)) for s, e in boxes), Fraction(0))
    dom = math.prod(Fraction(float(b[i])) - Fraction(float(a[i])) for i in range(d))
    overlap = None
    for (s1, e1), (s2, e2) in itertools.combinations(boxes, 2):
        if all(max(s1[i], s2[i]) < min(e1[i], e2[i]) for i in range(d)):
            overlap = ((s1, e1), (s2, e2))
            break
    ctx.check("B.hist.tiling", overlap is None and vol == dom, SITE_REFINE, wclass,
              "overlap=%s volume sum=%s domain=%s (%d leaves)" % (overlap, float(vol), float(dom), len(boxes)))
    # tree leaves == container objects
    tree = []
    stack = [sa.root_cell]
    while stack:
        n = stack.pop()
        if n.children:
            stack.extend(n.children)
        else:
            tree.append(n)
    ctx.check("B.hist.tree_leaves", len(tree) == len(leaves) and set(map(id, tree)) == set(map(id, leaves)), SITE_REFINE, wclass,
              "tree has %d leaves, container %d objects" % (len(tree), len(leaves)))
    lmin, lmax = sa.lmin[0], sa.lmax[0]
    cv = [ar.coarseningValue for ar in leaves]
    ctx.check("B.hist.coarsening_nonneg", all(isinstance(c, (int,)) or float(c).is_integer() for c in cv) and all(c >= 0 for c in cv),
              SITE_REFINE, wclass, "coarsening values %s with lmin=%s lmax=%s" % (sorted(set(cv)), lmin, lmax))
    return leaves


def evaluation_points(sa, leaves, a, b, d, r, n_random):
    pts = set()
    for _ in range(n_random):
        pts.add(tuple(float(a[i] + (b[i] - a[i]) * r.random()) for i in range(d)))
    for ar in r.sample(list(leaves), min(len(leaves), 6)):
        s, e = [float(x) for x in ar.start], [float(x) for x in ar.end]
        m = [(s[i] + e[i]) / 2 for i in range(d)]
        pts.add(tuple(s))
        pts.add(tuple(e))
        pts.add(tuple(m))
        for i in range(d):  # midpoints of the two faces orthogonal to dimension i (shared with neighbours)
            pts.add(tuple(s[j] if j == i else m[j] for j in range(d)))
            pts.add(tuple(e[j] if j == i else m[j] for j in range(d)))
    return sorted(pts)


def check_assignment(ctx, sa, leaves, pts, d, wclass, same_object=False):
    assign = None
    with ctx.guard("B.hist.assignment", SITE_ASSIGN, wclass + "-raises"):
        assign = sa.get_points_assignement_to_areas(pts if same_object else list(pts))
    if assign is None:
        return {}
    ids = set(map(id, leaves))
    count = {}
    ok_contained, ok_leaf = True, True
    owner = {}
    for area, ps in assign:
        if id(area) not in ids:
            ok_leaf = False
        for p in ps:
            p = tuple(p)
            count[p] = count.get(p, 0) + 1
            owner[p] = area
            if not all(float(area.start[i]) <= p[i] <= float(area.end[i]) for i in range(d)):
                ok_contained = False
    missing = [p for p in pts if count.get(p, 0) != 1]
    ctx.check("B.hist.assignment", not missing and ok_contained and ok_leaf and len(count) == len(pts), SITE_ASSIGN, wclass,
              "points not assigned exactly once: %s; contained=%s leaf=%s" % (missing[:3], ok_contained, ok_leaf))
    return owner


def check_step(ctx, sa, rec, f, a, b, d, r, wclass, lmin0, tag=""):
    wclass = wclass + tag
    leaves = check_tiling(ctx, sa, a, b, d, wclass)
    # A caller-owned list of evaluation points that is handed over again and again (the SAME list object at every stop of the history, as a user who
    # monitors fixed probe points does): assignment to the CURRENT leaves and the interpolated values must not depend on what was asked before.
    # It is the first query after the refinement step and (see the end of this function) the last one before the next step.
    probe = getattr(sa, "_verif_probe_points", None)
    if probe is None:
        probe = [tuple(float(a[i] + (b[i] - a[i]) * r.random()) for i in range(d)) for _ in range(10)]
        sa._verif_probe_points = probe
    check_assignment(ctx, sa, leaves, probe, d, wclass + "/same-list-object", same_object=True)
    with ctx.guard("B.hist.idempotent", SITE_CALL, wclass + "/same-list-object-raises"):
        import numpy as np
        with quiet():
            v_same = np.asarray(sa(probe), dtype=float)
            v_copy = np.asarray(sa(list(probe)), dtype=float)
        ctx.check("B.hist.idempotent", np.array_equal(v_same, v_copy), SITE_CALL, wclass + "/same-list-object",
                  "__call__ on the caller's probe list (same object as at earlier stops) differs from __call__ on a fresh copy of it: %s vs %s" % (v_same[:3].tolist(), v_copy[:3].tolist()))
    lmin = sa.lmin[0]
    site_w = vclass(sa.version, lmin) + tag
    # grids actually evaluated for every leaf in the last evaluate_operation passes (recorded at Integration.evaluate_area)
    bad_msg = None
    for ar in leaves:
        comp = rec.get(id(ar), [])
        bad = dominating_defects(comp, d)
        if bad or not comp:
            bad_msg = "leaf %s-%s coarsening %s: %d grids evaluated, coefficient sum at level %s is %s" % (
                list(ar.start), list(ar.end), ar.coarseningValue, len(comp), bad[0][0] if bad else None, bad[0][1] if bad else None)
            break
    ctx.check("B.hist.computed_sum", bad_msg is None, SITE_COARSEN, site_w, bad_msg or "")
    # what __call__ would combine now: replay the real coarsen_grid in scheme order on every leaf (collision dictionary restored afterwards)
    selection = {}
    msg = None
    with ctx.guard("B.hist.current_sum", SITE_COARSEN, site_w + "-raises"):
        for ar in leaves:
            saved = dict(ar.levelvec_dict)
            sel = []
            for cg in sa.scheme:
                lv, do_compute = sa.coarsen_grid(cg.levelvector, ar)
                if do_compute:
                    sel.append((tuple(int(x) for x in lv), cg.coefficient))
            again = [(tuple(int(x) for x in sa.coarsen_grid(cg.levelvector, ar)[0]), cg.coefficient) for cg in sa.scheme
                     if sa.coarsen_grid(cg.levelvector, ar)[1]]
            ar.levelvec_dict = saved
            selection[id(ar)] = sel
            if sorted(again) != sorted(sel):
                ctx.check("B.hist.idempotent", False, SITE_COARSEN, site_w + "/selection-twice",
                          "leaf %s-%s: second pass over the scheme selects %s, first pass %s" % (list(ar.start), list(ar.end), sorted(again)[:4], sorted(sel)[:4]))
            bad = dominating_defects(sel, d)
            if msg is None and (bad or not sel):
                msg = "leaf %s-%s coarsening %s lmax %s: %d grids selected, coefficient sum at level %s is %s" % (
                    list(ar.start), list(ar.end), ar.coarseningValue, sa.lmax[0], len(sel), bad[0][0] if bad else None, bad[0][1] if bad else None)
            if msg is None and sa.version == 0 and net(sel) != net(rec.get(id(ar), [])):
                msg = "leaf %s-%s coarsening %s lmax %s: selected now %s but evaluated %s" % (
                    list(ar.start), list(ar.end), ar.coarseningValue, sa.lmax[0], sorted(sel)[:5], sorted(rec.get(id(ar), []))[:5])
        ctx.check("B.hist.current_sum", msg is None, SITE_COARSEN, site_w, msg or "")
    # evaluation points: generic ones + the grid points of some leaves
    pts = set(evaluation_points(sa, leaves, a, b, d, r, 12))
    gridpts = {}
    for ar in r.sample(list(leaves), min(len(leaves), 5)):
        own = set()
        for lv, _ in selection.get(id(ar), []):
            sa.grid.setCurrentArea(ar.start, ar.end, list(lv))
            own.update(tuple(float(x) for x in p) for p in sa.grid.getPoints())
        own = sorted(own)
        if len(own) > 40:
            own = r.sample(own, 40)
        gridpts[id(ar)] = set(own)
        pts.update(own)
    pts = sorted(pts)
    owner = check_assignment(ctx, sa, leaves, pts, d, wclass)
    vals = vals2 = owner2 = None
    with ctx.guard("B.hist.interpolation", SITE_CALL, site_w + "-raises"):
        with quiet():
            vals = sa(list(pts))
    if vals is None:
        return
    with ctx.guard("B.hist.idempotent", SITE_CALL, site_w + "/second-call-raises"):
        with quiet():
            sub = list(pts)[::3]  # the same points again, in a smaller batch
            vals2 = sa(list(sub))
            owner2 = {tuple(p): ar for ar, ps in sa.get_points_assignement_to_areas(list(sub)) for p in ps}
    if vals2 is not None:
        import numpy as np
        same_vals = np.array_equal(np.asarray(vals, dtype=float)[::3], np.asarray(vals2, dtype=float))
        same_owner = all(owner2.get(p) is owner.get(p) for p in sub)
        ctx.check("B.hist.idempotent", same_vals and same_owner, SITE_CALL, site_w + "/second-call",
                  "second __call__/assignment on %d of the same points differs (values equal: %s, leaves equal: %s)" % (len(sub), same_vals, same_owner))
    worst, wp, n = 0.0, None, 0
    for i, p in enumerate(pts):
        ar = owner.get(p)
        if ar is None or p not in gridpts.get(id(ar), ()):
            continue
        n += 1
        ex = f_exact(f, p)
        for j in range(len(ex)):
            e = abs(float(vals[i][j]) - ex[j]) / (1.0 + abs(ex[j]))
            if not (e <= worst):
                worst, wp = e, p
    ctx.check("B.hist.interpolation", worst <= 1e-9, SITE_CALL, site_w,
              "interpolant differs from f by %.3e (scaled) at grid point %s of its leaf (%d grid points checked)" % (worst, wp, n))
    with ctx.guard("B.hist.assignment", SITE_ASSIGN, wclass + "/same-list-object-raises"):
        sa.get_points_assignement_to_areas(probe)      # last query of this stop: the probe list again


def history_case(ctx, case):
    import numpy as np
    from sparseSpACE.spatiallyAdaptiveExtendSplit import SpatiallyAdaptiveExtendScheme
    from sparseSpACE.Grid import TrapezoidalGrid
    from sparseSpACE.GridOperation import Integration
    from sparseSpACE.ErrorCalculator import ErrorCalculator

    d, lmin, lmax, version = case["d"], case["lmin"], case["lmax"], case["version"]
    r = random.Random(case["seed"])
    a, b = domain_vectors(case["domain"], d)
    f = make_function("g", d, case["seed"] + 17, case["outlen"])
    rec = {}

    class RecordingIntegration(Integration):
        # observer only: remembers which (coarsened level, coefficient) pairs were evaluated for which area in the main pass
        def evaluate_area(self, area, levelvector, componentgrid_info, refinement_container, additional_info, apply_to_combi_result=True):
            if refinement_container is not None and apply_to_combi_result:
                rec.setdefault(id(area), []).append((tuple(int(x) for x in levelvector), componentgrid_info.coefficient))
            return Integration.evaluate_area(self, area, levelvector, componentgrid_info, refinement_container, additional_info,
                                             apply_to_combi_result)

    class AdversarialError(ErrorCalculator):
        def calc_error(self, refine_object, norm, volume_weights=None):
            return r.choice((1.0, 1.0, 1.0, 0.95, 10.0, 1e-3)) * (0.05 + r.random())

    grid = TrapezoidalGrid(a, b, boundary=True)
    op = RecordingIntegration(f, grid=grid, dim=d)
    wclass = "auto%d-ssd%d" % (int(case["auto"]), int(case["ssd"]))

    def drive(sa_obj, cfg, lmin_, lmax_, steps, tag):
        """(re)start sa_obj with performSpatiallyAdaptiv and step it; returns (scheme or None, leaves changed)"""
        wcl = "auto%d-ssd%d" % (int(cfg["auto"]), int(cfg["ssd"]))
        rec.clear()
        ok = False
        with ctx.guard("B.hist.runs", "sparseSpACE.spatiallyAdaptiveBase:SpatiallyAdaptivBase.performSpatiallyAdaptiv", wcl + tag + "-init-raises"):
            with quiet():
                if sa_obj is None:
                    sa_obj = SpatiallyAdaptiveExtendScheme(a, b, number_of_refinements_before_extend=cfg["nrbe"], version=cfg["version"],
                                                           automatic_extend_split=cfg["auto"], split_single_dim=cfg["ssd"], operation=op)
                # max_evaluations=1: initial evaluation only, then the loop of continue_adaptive_refinement is stepped by hand
                sa_obj.performSpatiallyAdaptiv(lmin=lmin_, lmax=lmax_, errorOperator=AdversarialError(), tol=-1, max_evaluations=1, print_output=False)
            ok = True
        if not ok or sa_obj is None or not hasattr(sa_obj, "refinement"):
            return None, False
        if tag:  # the fresh initial state
            leaves = sa_obj.refinement.get_objects()
            fresh = (len(leaves) == 2 ** d and all(ar.coarseningValue == 0 for ar in leaves) and list(sa_obj.lmax) == [lmax_] * d
                     and list(sa_obj.lmin) == [lmin_] * d and all(len(rec.get(id(ar), [])) > 0 for ar in leaves))
            ctx.check("B.hist.fresh_state", fresh, "sparseSpACE.spatiallyAdaptiveBase:SpatiallyAdaptivBase.init_adaptive_combi", wcl + tag,
                      "%d leaves, coarsening %s, lmax %s (expected %d leaves, 0, %s)" % (len(leaves), sorted(set(ar.coarseningValue for ar in leaves)),
                                                                                        list(sa_obj.lmax), 2 ** d, lmax_))
        check_step(ctx, sa_obj, rec, f, a, b, d, r, wcl, lmin_, tag)
        changed = False
        v = vclass(cfg["version"], lmin_)
        for step in range(steps):
            before = set(map(id, sa_obj.refinement.get_objects()))
            okstep = False
            with ctx.guard("B.hist.runs", SITE_STEP, (v if "gt1" in v else wcl) + tag + "-step-raises"):
                with quiet():
                    sa_obj.refine()
                    sa_obj.evaluate_operation()
                okstep = True
            if not okstep:
                break
            changed |= before != set(map(id, sa_obj.refinement.get_objects()))
            check_step(ctx, sa_obj, rec, f, a, b, d, r, wcl, lmin_, tag)
            if ctx.out_of_time(0.97):
                break
        return sa_obj, changed

    sa, changed = drive(None, case, lmin, lmax, case["steps"], "")
    if sa is None:
        return False
    follow = case.get("follow")
    if follow == "second-run":
        # same object, started again with other start levels (auto needs lmax > lmin)
        lmax2 = lmax + 1 if lmax < 3 else lmax - 1
        if case["auto"] and lmax2 <= lmin:
            lmax2 = lmin + 1
        drive(sa, case, lmin, lmax2, 2, "/second-run")
    elif follow == "shared-operation":
        cfg = dict(case, version=(version + 1) % 3, ssd=not case["ssd"], nrbe=(case["nrbe"] + 1) % 3)
        drive(None, cfg, lmin, lmax, 3, "/shared-operation")
    return changed


def history_universe(quick):
    for d in (2, 3):
        levels = [(1, 2), (1, 3), (2, 3), (1, 1), (2, 2)] if (d == 2 or not quick) else [(1, 2)]
        for (lmin, lmax) in levels:
            for version in (0, 1, 2):
                for nrbe in (0, 1, 2):
                    for auto in (False, True):
                        if auto and lmax == lmin:
                            continue  # outside the universe, see BOUND
                        for ssd in (False, True):
                            yield d, lmin, lmax, version, nrbe, auto, ssd


def run_histories(ctx):
    confs = list(history_universe(ctx.quick()))
    passes = 1 if ctx.quick() else 8
    done = 0
    for n_pass in range(passes):
        ctx.rng.shuffle(confs)
        # every (d, version, auto, ssd) combination first, then the rest
        head, seen = [], set()
        for cf in confs:
            key = (cf[0], cf[3], cf[5], cf[6])
            if key not in seen:
                seen.add(key)
                head.append(cf)
        rest = [cf for cf in confs if cf not in head]
        for (d, lmin, lmax, version, nrbe, auto, ssd) in head + rest:
            if ctx.out_of_time(0.93):
                ctx.note("history sample stopped after %d histories (%d configurations in the universe, pass %d)" % (done, len(confs), n_pass))
                return
            case = {"kind": "history", "d": d, "lmin": lmin, "lmax": lmax, "version": version, "nrbe": nrbe, "auto": auto, "ssd": ssd,
                    "domain": ctx.rng.choice(sorted(DOMAINS)), "outlen": ctx.rng.choice((1, 1, 2)),
                    "steps": 6 if d == 2 else (3 if ctx.quick() else 5), "seed": ctx.rng.randrange(10 ** 6),
                    "follow": (None, "second-run", None, "shared-operation")[done % 4]}
            ctx.case(case)
            history_case(ctx, case)
            done += 1
    ctx.note("%d histories over %d configurations" % (done, len(confs)))


def run(ctx):
    run_local(ctx)
    ctx.exhaustive = False  # (a) is exhaustive over its stated universe, (b) is a seeded sample
    run_histories(ctx)


def replay(ctx, case):
    if case["kind"] == "local":
        local_case(ctx, case)
    else:
        history_case(ctx, case)
